#!/usr/bin/env python3
"""Sensitivity self-test: applies deliberate property-breaking edits (mutants) to /repo one at a
time, runs the quick check of the property they break, expects exit 1 with a VIOLATION line, and
restores /repo. Mutants are plain text replacements that still compile and pass the existing tests.

usage: tools/selftest_mutants.py [name-substring ...]
"""
import subprocess, sys, os, time, json

# With --scratch the mutants are applied to a git worktree of /repo under /tmp and checked by a copy
# of /verif that is built against that worktree, so /repo and /verif stay untouched and usable.
SCRATCH = "--scratch" in sys.argv
if SCRATCH:
    sys.argv.remove("--scratch")
SROOT = "/tmp/opcua-verif-mutants"
REPO = SROOT + "/repo" if SCRATCH else "/repo"
VERIF = SROOT + "/verif" if SCRATCH else "/verif"
L = "lib/src/"

def setup_scratch():
    os.makedirs(SROOT, exist_ok=True)
    if not os.path.isdir(REPO):
        subprocess.run(f"git -C /repo worktree add --detach {REPO} HEAD", shell=True, check=True, capture_output=True)
    else:
        subprocess.run(f"git -C {REPO} checkout -q --detach $(git -C /repo rev-parse HEAD)", shell=True, check=True)
    subprocess.run(f"mkdir -p {VERIF} && rsync -a --delete --exclude target --exclude work --exclude replays --exclude evidence /verif/ {VERIF}/ && mkdir -p {VERIF}/replays {VERIF}/evidence", shell=True, check=True)
    ct = open(f"{VERIF}/sim/Cargo.toml").read().replace('path = "/repo/lib"', f'path = "{REPO}/lib"')
    open(f"{VERIF}/sim/Cargo.toml", "w").write(ct)
    cfg = open(f"{VERIF}/sim/.cargo/config.toml").read().replace('target-dir = "/verif/target"', f'target-dir = "{VERIF}/target"')
    open(f"{VERIF}/sim/.cargo/config.toml", "w").write(cfg)

MUTANTS = [
 # (name, property ids whose quick check must fail, file, old, new)
 ("c11-forget-set-position", ["C11"], L+"client/transport/buffer.rs",
  "            self.state = SendBufferState::Writing;\n            self.buffer.set_position(0);\n        }\n\n        Ok(())",
  "            self.state = SendBufferState::Writing;\n        }\n\n        Ok(())"),
 ("c11-codec-header-len", ["C11"], L+"core/comms/tcp_codec.rs", "if buf.len() > MESSAGE_HEADER_LEN {", "if buf.len() > MESSAGE_HEADER_LEN + 12 {"),
 ("c12-server-forgets-last-seq", ["C12"], L+"server/comms/tcp_transport.rs",
  "        self.last_received_sequence_number = Chunker::validate_chunks(\n            self.last_received_sequence_number + 1,",
  "        let _ = Chunker::validate_chunks(\n            self.last_received_sequence_number + 1,"),
 ("c12-sendbuffer-seq-plus-one", ["C12"], L+"client/transport/buffer.rs", "self.last_sent_sequence_number += chunks.len() as u32;", "self.last_sent_sequence_number += 1;"),
 ("c12-no-request-id-check", ["C12"], L+"core/comms/chunker.rs", "} else if chunk_info.sequence_header.request_id != expected_request_id {", "} else if false && chunk_info.sequence_header.request_id != expected_request_id {"),
 ("c12-accept-equal-seq", ["C12"], L+"core/comms/chunker.rs", "if first_sequence_number < starting_sequence_number {", "if first_sequence_number + 1 < starting_sequence_number {"),
 ("c07-final-flag-first", ["C07"], L+"core/comms/chunker.rs", "let is_final = if i == data_chunks_len - 1 {", "let is_final = if i == 0 {"),
 ("c07-skip-seq-plus-i", ["C07", "C12"], L+"core/comms/chunker.rs", "                        sequence_number + i as u32,\n                        request_id,", "                        sequence_number,\n                        request_id,"),
 ("c08-hmac-prefix-only", ["C08"], L+"crypto/hash.rs", None, None),
 ("c15-keep-reading-after-close", ["C15"], L+"server/comms/secure_channel_service.rs", "        Err(StatusCode::BadConnectionClosed)\n    }", "        Ok(ServiceFault::new(&RequestHeader::default(), StatusCode::Good).into())\n    }"),
 ("c19-no-activation-check", ["C19"], L+"server/services/message_handler.rs", "        if !session.is_activated() {\n            error!(\"Session is not activated so request fails\");", "        if false && !session.is_activated() {\n            error!(\"Session is not activated so request fails\");"),
 ("c19-no-channel-check", ["C19"], L+"server/services/message_handler.rs", "if secure_channel_id != session.secure_channel_id() {", "if false && secure_channel_id != session.secure_channel_id() {"),
 ("c19-timeout-inverted", ["C19"], L+"server/services/message_handler.rs", "if elapsed.num_milliseconds() as f64 > session.session_timeout()", "if (elapsed.num_milliseconds() as f64) < session.session_timeout() - 1e12"),
 # equivalent mutant: CloseSession also deregisters the session, so the token can no longer be found either way
 ("c19-close-keeps-token-EQUIVALENT", [], L+"server/services/session.rs", "                session.set_authentication_token(NodeId::null());\n", ""),
 ("c20-password-prefix", ["C20"], L+"server/state.rs", "server_password == token_password.as_bytes()", "token_password.as_bytes().starts_with(server_password)"),
 ("c20-anonymous-always", ["C20"], L+"server/state.rs", "} else if !endpoint.supports_anonymous() {", "} else if false && !endpoint.supports_anonymous() {"),
 ("c20-skip-nonce-compare", ["C20"], L+"crypto/user_identity.rs", "            if nonce != server_nonce {", "            if false && nonce != server_nonce {"),
 ("c21-newest-request-first", ["C21"], L+"server/subscriptions/subscriptions.rs", "let publish_request = self.publish_request_queue.pop_back().unwrap();", "let publish_request = self.publish_request_queue.pop_front().unwrap();"),
 # benign for the property: without the reset a keep-alive is sent every interval, which still satisfies "at least once every max-keep-alive-count intervals"
 ("c22-no-keepalive-reset-BENIGN", [], L+"server/subscriptions/subscription.rs", "                    self.start_publishing_timer();\n                    self.reset_keep_alive_counter();\n                    return UpdateStateResult::new(\n                        HandledState::KeepAlive15,", "                    self.start_publishing_timer();\n                    return UpdateStateResult::new(\n                        HandledState::KeepAlive15,"),
 # "== 0" only shifts the expiry by one interval, inside the slack the property grants; "never expires" is the real break
 ("c22-never-expires", ["C22"], L+"server/subscriptions/subscription.rs", "        self.lifetime_counter -= 1;", "        if self.lifetime_counter > 2 { self.lifetime_counter -= 1; }"),
 ("c22-expires-at-half-lifetime", ["C22"], L+"server/subscriptions/subscription.rs", "if self.lifetime_counter == 1 {", "if self.lifetime_counter <= self.max_lifetime_counter / 2 {"),
 ("c24-discard-wrong-end", ["C24"], L+"server/subscriptions/monitored_item.rs", "                let _ = self.notification_queue.pop_front();\n            } else {\n                // Remove the latest notification\n                self.notification_queue.pop_back();", "                let _ = self.notification_queue.pop_back();\n            } else {\n                // Remove the latest notification\n                self.notification_queue.pop_front();"),
 ("c24-full-test", ["C24"], L+"server/subscriptions/monitored_item.rs", "let overflow = if self.notification_queue.len() == self.queue_size {", "let overflow = if self.notification_queue.len() > self.queue_size {"),
 ("c25-abs-compare-strict", ["C25"], L+"types/service_types/impls.rs", "        diff <= threshold_diff\n", "        diff < threshold_diff\n"),
 ("c25-last-value-every-sample", ["C25"], L+"server/subscriptions/monitored_item.rs", "            if data_change {\n                trace!(\n                    \"Data change on item -, node {:?}, data_value = {:?}\",", "            self.last_data_value = Some(data_value.clone());\n            if data_change {\n                trace!(\n                    \"Data change on item -, node {:?}, data_value = {:?}\","),
 ("c26-expire-on-negative", ["C26"], L+"server/subscriptions/subscriptions.rs", ".to_std().unwrap_or_default();\n            if signed_duration_since > publish_request_timeout {", ".to_std().unwrap_or(Duration::from_secs(86400));\n            if signed_duration_since > publish_request_timeout {"),
 ("c27-no-sort", ["C27"], L+"server/subscriptions/subscriptions.rs", "            subscription_priority.sort_by(|s1, s2| s2.1.cmp(&s1.1));\n", ""),
 ("c28-no-reverse-lookup", ["C28"], L+"server/address_space/references.rs", "        if let Some(ref mut lookup_set) = self.referenced_by_map.get_mut(target_node) {\n            lookup_set.insert(source_node.clone());\n        } else {", "        if let Some(ref mut _lookup_set) = self.referenced_by_map.get_mut(target_node) {\n        } else {"),
 ("c28-retain-ignores-type", ["C28"], L+"server/address_space/references.rs", "if r.reference_type == reference_type && r.target_node == *target_node {", "if r.target_node == *target_node {"),
 ("c29-skip-delete-references", ["C29"], L+"server/address_space/address_space.rs", "            let removed_target_references = if delete_target_references {\n                self.references.delete_node_references(node_id)", "            let removed_target_references = if delete_target_references && false {\n                self.references.delete_node_references(node_id)"),
 ("c29-no-recursion", ["C29"], L+"server/address_space/address_space.rs", "                    nodes_to_delete.extend(child_nodes);", "                    let _ = child_nodes;"),
 ("c30-cp-always-valid", ["C30"], L+"server/continuation_point.rs", "self.address_space_last_modified >= address_space.last_modified()", "self.address_space_last_modified >= address_space.last_modified() || true"),
 ("c30-next-index-off-by-one", ["C30"], L+"server/services/view.rs", "let next_starting_index = starting_index + max_references_per_node;", "let next_starting_index = starting_index + max_references_per_node + 1;"),
 ("c30-keep-used-point", ["C30"], L+"server/session.rs", "            self.browse_continuation_points.remove(idx)\n", "            self.browse_continuation_points.get(idx).cloned()\n"),
 ("c30-unbounded-points", ["C30"], L+"server/session.rs", "while self.browse_continuation_points.len() >= self.max_browse_continuation_points {", "while false && self.browse_continuation_points.len() >= self.max_browse_continuation_points {"),
 ("c32-skip-is-writable", ["C32"], L+"server/services/attribute.rs", "                if !Self::is_writable(session, node, attribute_id) {\n                    StatusCode::BadNotWritable", "                if false && !Self::is_writable(session, node, attribute_id) {\n                    StatusCode::BadNotWritable"),
 ("c32-range-write-off-by-one", ["C32"], L+"types/variant.rs", "                            let mut idx = min;\n                            while idx < values.len() && idx <= max && idx - min < other_values.len()", "                            let mut idx = min + 1;\n                            while idx < values.len() && idx <= max && idx - min < other_values.len()"),
 ("c33-unconditional-index", ["C33"], L+"server/services/attribute.rs", "            let nodes_to_read = request.nodes_to_read.as_ref().unwrap();\n            if nodes_to_read.len() <= server_state.operational_limits.max_nodes_per_read {", "            let nodes_to_read = request.nodes_to_read.as_ref().unwrap();\n            let _first = &nodes_to_read[1];\n            if nodes_to_read.len() <= server_state.operational_limits.max_nodes_per_read {"),
 ("c34-good-before-parent-check", ["C34"], L+"server/services/node_management.rs", "            if item.parent_node_id.server_index != 0\n                || !address_space.node_exists(&item.parent_node_id.node_id)\n            {", "            if item.parent_node_id.server_index != 0\n            {"),
 ("c40-ack-ignores-subscription", ["C40"], L+"server/subscriptions/subscriptions.rs", "if self.retransmission_queue.remove(&(subscription_id, sequence_number)).is_some() {", "if { let k = self.retransmission_queue.keys().find(|k| k.1 == sequence_number).cloned(); k.map(|k| self.retransmission_queue.remove(&k)).is_some() } {"),
 ("c40-republish-newest", ["C40"], L+"server/subscriptions/subscriptions.rs", "            if let Some(notification_message) = self\n                .retransmission_queue\n                .get(&(subscription_id, sequence_number))\n            {", "            if let Some(notification_message) = self\n                .retransmission_queue\n                .iter().filter(|(k, _)| k.0 == subscription_id && sequence_number > 0).map(|(_, v)| v).last()\n            {"),
 ("c18-rejected-check-skipped", ["C18"], L+"crypto/certificate_store.rs", "            cert_path.push(&cert_file_name);\n            if cert_path.exists() {\n                warn!(\n                    \"Certificate {} is untrusted because", "            cert_path.push(&cert_file_name);\n            if false && cert_path.exists() {\n                warn!(\n                    \"Certificate {} is untrusted because"),
 ("c18-no-byte-compare", ["C18"], L+"crypto/certificate_store.rs", "                    der == file_der\n", "                    der.len() == file_der.len()\n"),
 ("c18-keylength-after-skip", ["C18"], L+"crypto/certificate_store.rs", "                    if !security_policy.is_valid_keylength(key_length) {", "                    if !self.skip_verify_certs && !security_policy.is_valid_keylength(key_length) {"),
 ("c18-check-time-only-expiry", ["C18"], L+"crypto/x509.rs", "            if now.lt(&not_before) {", "            if false && now.lt(&not_before) {"),
 ("c18-untrusted-not-stored", ["C18"], L+"crypto/certificate_store.rs", "                    let _ = self.store_rejected_cert(cert);\n                    return StatusCode::BadCertificateUntrusted;", "                    return StatusCode::BadCertificateUntrusted;"),
 ("c18-uri-ignored-when-host-given", ["C18"], L+"crypto/certificate_store.rs", "            if let Some(application_uri) = application_uri {", "            if let Some(application_uri) = application_uri.filter(|_| hostname.is_none()) {"),
 ("c18-missing-file-is-match", ["C18"], L+"crypto/certificate_store.rs", "                    // No cert2 to compare to\n                    false", "                    // No cert2 to compare to\n                    true"),
 ("c35-timeout-not-removed", ["C35"], L+"client/transport/core.rs", "        for id in timed_out {\n            if let Some(state) = self.message_states.remove(&id) {", "        for id in timed_out {\n            if let Some(state) = self.message_states.remove(&id).filter(|_| id % 2 == 0) {"),
 ("c35-unknown-response-is-error", ["C35"], L+"client/transport/core.rs", "        let Some(message_state) = self.message_states.get_mut(&req_id) else {\n            return Ok(());\n        };", "        let Some(message_state) = self.message_states.get_mut(&req_id) else {\n            return Err(StatusCode::BadUnexpectedError);\n        };"),
 ("c35-close-forgets-pending", ["C35"], L+"client/transport/core.rs", "        for (_, pending) in self.message_states.drain() {\n            let _ = pending.callback.send(Err(request_status));\n        }", "        for (_, pending) in self.message_states.drain() {\n            std::mem::forget(pending.callback);\n        }"),
 ("c35-timeout-early", ["C35"], L+"client/transport/core.rs", "            if state.deadline <= now {", "            if state.deadline <= now + std::time::Duration::from_millis(8) {"),
 ("c35-any-pending-gets-response", ["C35"], L+"client/transport/core.rs", "        let Some(message_state) = self.message_states.get_mut(&req_id) else {\n            return Ok(());\n        };", "        let req_id = if self.message_states.contains_key(&req_id) { req_id } else { self.message_states.keys().next().cloned().unwrap_or(req_id) };\n        let Some(message_state) = self.message_states.get_mut(&req_id) else {\n            return Ok(());\n        };"),
 ("c35-abort-ignored", ["C35"], L+"client/transport/core.rs", "                let message_state = self.message_states.remove(&req_id).unwrap();\n                let _ = message_state\n                    .callback\n                    .send(Err(StatusCode::BadCommunicationError));", "                let _ = req_id;"),
 ("c38-write-locks-swapped", ["C38"], L+"server/services/attribute.rs", "            let session = trace_read_lock!(session);\n            let mut address_space = trace_write_lock!(address_space);", "            let mut address_space = trace_write_lock!(address_space);\n            let session = trace_read_lock!(session);"),
 ("c38-browse-locks-swapped", ["C38"], L+"server/services/view.rs", "            let mut session = trace_write_lock!(session);\n            let address_space = trace_read_lock!(address_space);\n\n            let view", "            let address_space = trace_read_lock!(address_space);\n            let mut session = trace_write_lock!(session);\n\n            let view"),
 ("c36-ack-keepalives", ["C36"], L+"client/session/services/subscriptions/state.rs", "        if !is_keep_alive {\n            self.add_acknowledgement(subscription_id, notification.sequence_number);\n        }", "        let _ = is_keep_alive;\n        self.add_acknowledgement(subscription_id, notification.sequence_number);"),
 ("c36-failed-acks-dropped", ["C36"], L+"client/session/services/subscriptions/service.rs", "        if let Some(acks) = acks {\n            let mut subscription_state = trace_lock!(self.subscription_state);\n            subscription_state.re_queue_acknowledgements(acks);\n        }", "        let _ = acks;"),
 ("c36-acks-not-taken", ["C36"], L+"client/session/services/subscriptions/state.rs", "        std::mem::take(&mut self.acknowledgements)", "        self.acknowledgements.clone()"),
 ("c14-client-token-installed-late", ["C14"], L+"client/transport/core.rs", "                if let SupportedMessage::OpenSecureChannelResponse(ref response) = message {\n                    self.install_security_token(response)?;\n                }", "                if let SupportedMessage::OpenSecureChannelResponse(ref _response) = message {}"),
 ("c35-deadline-not-enforced-by-caller", ["C35"], L+"client/transport/state.rs", "        match tokio::time::timeout(remaining, cb_recv).await {", "        match tokio::time::timeout(remaining + Duration::from_secs(3600), cb_recv).await {"),
 ("c02-diagnostic-info-depth-unchecked", ["C02"], L+"types/diagnostic_info.rs", "            let _depth_lock = decoding_options.depth_lock()?;\n            diagnostic_info.inner_diagnostic_info =", "            diagnostic_info.inner_diagnostic_info ="),
 ("c02-string-length-unchecked", ["C02"], L+"types/string.rs", "        } else if len as usize > decoding_options.max_string_length {\n            error!(\n                \"String buf length {} exceeds decoding limit {}\",", "        } else if false && len as usize > decoding_options.max_string_length {\n            error!(\n                \"String buf length {} exceeds decoding limit {}\","),
 ("c09-remove-size-check", ["C09"], L+"core/comms/secure_channel.rs", "            if message_size < encrypted_data_offset + signature_size {", "            if false && message_size < encrypted_data_offset + signature_size {"),
]

def run(cmd, **kw):
    return subprocess.run(cmd, shell=True, capture_output=True, text=True, **kw)

def main():
    sel = sys.argv[1:]
    if SCRATCH:
        setup_scratch()
    if run(f"git -C {REPO} diff --quiet").returncode != 0:
        print(f"refusing: {REPO} has uncommitted changes"); return 2
    results = []
    for (name, props, path, old, new) in MUTANTS:
        if old is None:
            continue
        if sel and not any(s in name for s in sel):
            continue
        full = os.path.join(REPO, path)
        src = open(full).read()
        if src.count(old) != 1:
            print(f"SKIP {name}: pattern found {src.count(old)} times"); results.append((name, "skip")); continue
        open(full, "w").write(src.replace(old, new))
        try:
            for p in props:
                t = time.time()
                r = run(f"cd {VERIF} && ./check quick {p}")
                detected = r.returncode == 1 and "VIOLATION property=%s" % p in r.stdout
                status = "DETECTED" if detected else ("HARNESS-ERROR" if r.returncode == 2 else "MISSED")
                sig = [l.strip() for l in r.stdout.splitlines() if l.startswith("  ") and "::" in l][:1]
                print(f"{status:13s} {name:34s} {p}  {time.time()-t:5.1f}s  {sig[0][:110] if sig else ''}", flush=True)
                results.append((name + ":" + p, status))
        finally:
            open(full, "w").write(src)
    run(f"git -C {REPO} checkout -- .")
    missed = [n for n, s in results if s != "DETECTED"]
    print(f"mutants: {len(results)} run, {len(results)-len(missed)} detected; not detected: {missed}")
    return 0 if not missed else 1

if __name__ == "__main__":
    sys.exit(main())
