#!/bin/bash
# Apply a patch to /repo, run the quick (or $TIER) check of the given properties, and undo the patch.
# usage: tools/try_patch.sh <patch.diff> <ID> [ID...]
set -u
patch="$1"; shift
cd /verif
if ! git -C /repo diff --quiet; then echo "refusing: /repo has uncommitted changes"; exit 2; fi
git -C /repo apply "$patch" || { echo "patch does not apply"; exit 2; }
for id in "$@"; do
    echo "=== $id with $(basename $(dirname $patch))/$(basename $patch)"
    VERIF_ROOT_OVERRIDE= ./check "${TIER:-quick}" "$id" | grep -v "^note:" | tail -n 6
    echo "exit=${PIPESTATUS[0]}"
done
git -C /repo checkout -- .
git -C /repo status --short | head -3
