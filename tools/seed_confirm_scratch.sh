#!/bin/bash
# Like seed_confirm.sh, but applies the patch to a scratch worktree of /repo and runs a scratch
# copy of /verif against it, so that /repo and /verif/target are not touched (safe while other
# checks are running). usage: tools/seed_confirm_scratch.sh <ID> <n> [more check ids...]
set -u
id="$1"; n="$2"; shift 2
checks="$id $*"
src=/tmp/${SEED_PREFIX:-seed}-$id/out
S=/tmp/opcua-verif-mutants
R=$S/repo; V=$S/verif
mkdir -p $S
if [ ! -d $R ]; then git -C /repo worktree add --detach $R HEAD >/dev/null 2>&1; else git -C $R checkout -q -- . ; git -C $R checkout -q --detach $(git -C /repo rev-parse HEAD); fi
mkdir -p $V && rsync -a --delete --exclude target --exclude work --exclude replays --exclude evidence /verif/ $V/ && mkdir -p $V/replays $V/evidence
sed -i "s#path = \"/repo/lib\"#path = \"$R/lib\"#" $V/sim/Cargo.toml
sed -i "s#target-dir = \"/verif/target\"#target-dir = \"$V/target\"#" $V/sim/.cargo/config.toml
if ! git -C $R apply --check "$src/patch$n.diff" 2>/dev/null; then echo "patch$n does not apply"; exit 2; fi
git -C $R apply "$src/patch$n.diff"
dst=/verif/seeded/$id-${SEED_TAG:-}$n
mkdir -p "$dst"
cp "$src/patch$n.diff" "$dst/patch.diff"
cp "$src/demo$n.md" "$dst/demo.md" 2>/dev/null
results="[]"
for c in $checks; do
    out=$(cd $V && ./check quick "$c" 2>&1); rc=$?
    sig=$(echo "$out" | grep -m1 "^  $c/" | cut -c1-400)
    foreign=$(echo "$out" | grep -m1 "^note: observation attributed" | cut -c1-300)
    echo "$c rc=$rc ${sig:-$foreign}"
    results=$(python3 - "$results" "$c" "$rc" "$sig" "$foreign" <<'PY'
import json,sys
r=json.loads(sys.argv[1]); r.append({"check":sys.argv[2],"exit":int(sys.argv[3]),"first_violation":sys.argv[4],"note":sys.argv[5]}); print(json.dumps(r))
PY
)
done
git -C $R checkout -q -- .
python3 - "$src/meta$n.json" "$dst/meta.json" "$results" <<'PY'
import json,sys
try: m=json.load(open(sys.argv[1]))
except Exception: m={}
r=json.loads(sys.argv[3])
m["checks_run"]=r
m["caught_by"]=[x["check"] for x in r if x["exit"]==1 and x["first_violation"]]
m["confirmed_by"]="applied to a scratch worktree of /repo at the same commit, ./check quick of a scratch copy of /verif run against it"
json.dump(m,open(sys.argv[2],"w"),indent=1)
print("caught_by:",m["caught_by"])
PY
