#!/bin/bash
# Reverse-apply a fix commit of /repo (i.e. re-introduce the defect), run a quick check, pin the
# replay, restore /repo. usage: tools/reverse_fix.sh <commit> <ID> [pin-name]
set -u
commit="$1"; id="$2"; pin="${3:-}"
cd /verif
if ! git -C /repo diff --quiet; then echo "refusing: /repo has uncommitted changes"; exit 2; fi
git -C /repo show "$commit" -- lib/src | git -C /repo apply -R || { echo "cannot reverse $commit"; exit 2; }
rm -f replays/${id}_*.json
./check quick "$id" | grep -v "^note:" | tail -n 6 | cut -c1-250
if [ -n "$pin" ]; then
    f=$(ls replays/${id}_*.json 2>/dev/null | head -1)
    if [ -n "$f" ]; then cp "$f" "replays/pinned/$pin.json"; echo "pinned $f -> replays/pinned/$pin.json"; fi
fi
git -C /repo checkout -- .
