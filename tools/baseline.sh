#!/bin/bash
# Runs the repository's pinned test suite with the verification guard OFF and checks that every
# test in BASELINE.json's stable_pass list passed. Exit 0 iff none is missing.
cd /repo
out=/tmp/opcua-baseline-$$.log
cargo nextest run --workspace --no-fail-fast --tool-config-file pb:/w/lib/nextest.toml --profile pb --test-threads 8 --offline > $out 2>&1
python3 - "$out" <<'PY'
import json,sys
import xml.etree.ElementTree as ET
passed=set(); failed=set()
root=ET.parse('/repo/target/nextest/pb/junit.xml').getroot()
for suite in root.iter('testsuite'):
    for case in suite.iter('testcase'):
        name=suite.get('name')+'::'+case.get('name')
        bad=any(ch.tag in ('failure','error') for ch in case)
        (failed if bad else passed).add(name)
stable=json.load(open('/root/.vp/BASELINE.json'))['stable_pass']
missing=[t for t in stable if t not in passed]
print("stable:",len(stable),"passed-of-stable:",len(stable)-len(missing),"all passed:",len(passed),"failed:",len(failed))
for t in missing[:20]: print("MISSING",t)
sys.exit(1 if missing else 0)
PY
rc=$?
tail -n 3 $out
rm -f $out
exit $rc
