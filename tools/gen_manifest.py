#!/usr/bin/env python3
"""Regenerates /verif/MANIFEST.json from the tables below (single source of truth for what is claimed)."""
import json, subprocess, os
ROOT = os.path.dirname(os.path.dirname(os.path.abspath(__file__)))

NA = {
"C01":"pure function of one value (decode(encode(v))==v over in-memory cursors); no schedule, clock, peer or fault to simulate; whole-message transfer between two parties is covered by C07",
"C03":"accept/reject at a length boundary is a pure function of (bytes, options); the stream-facing half (oversized frame refused before buffering) is decided inside C10",
"C04":"parse(print(x))==x for identifiers is a pure function of x; no nondeterminism or fault surface",
"C05":"relative path print/parse is a pure function of the path value",
"C06":"numeric conversion/cast is a pure function of (value, target type)",
"C13":"P_SHA key derivation is a pure function of (policy, nonces); role agreement is exercised implicitly by every secured exchange in C07/C14 but RFC conformance cannot be decided by simulation",
"C16":"password encrypt/decrypt is a pure function of (password, nonce, key, padding); no schedule/clock/fault",
"C17":"sign/verify is a pure function of (key, certificate, nonce, signature)",
"C23":"revised values are a pure function of (request, limits)",
"C31":"path translation is a query on a fixed address space: pure function of (graph, path)",
"C37":"back-off sequence is a pure function of (initial, max, limit)",
"C39":"filter evaluation is a pure function of (filter, event)",
"C41":"load(save(c))==c: file is a pass-through, statement says nothing about interrupted writes",
"C42":"JSON round trip is a pure function of the value",
}
PLANNED = ["C02","C07","C08","C09","C10","C11","C12","C14","C15","C18","C19","C20","C21","C22","C24","C25","C26","C27","C28","C29","C30","C32","C33","C34","C35","C36","C38","C40"]

# id -> (level, technique, text, note, design_ref)
CHECKS = {
"C11": ("fault_enumeration", "deterministic simulation: seeded + enumerated read segmentations / partial-write-Pending-cancel schedules against the real codec and send buffer",
        "Every composition of a 16-byte frame and every 1- and 2-cut split of a multi-frame stream is enumerated, plus seeded random streams/segmentations and send-buffer write schedules; oracle: same frames / same bytes as the sender produced.",
        "Simulated AsyncRead/AsyncWrite stand in for the socket; send-buffer part uses policy None.", "7/C11"),
"C15": ("fault_enumeration", "deterministic simulation: enumerated + seeded frame histories from a raw client against the real server transport tasks on a paused seeded tokio runtime",
        "Every HEL/OPN/MSG/CLO history of length <=4 (quick) / <=5 (thorough) plus seeded longer histories with segmentation and pauses; oracle: protocol state machine over what appears on the wire.",
        "In-memory duplex stream through the verif::net seam instead of a TCP socket; policy None.", "7/C15"),
"C21": ("exploration", "deterministic simulation: seeded histories (writes, timer ticks, publish bursts/starvation, acks, lifecycle churn) against the real server tasks on a paused tokio runtime; reference model of pairing, ordering and exactly-once delivery",
        "Real reader/writer/timer tasks and services; oracle: every publish response answers the oldest queued request exactly once, sequence numbers strictly increase, per-item delivered values equal the written values (no duplicate, no reorder, complete after a fault-free drain in the sound regime); publish requests with timeout hints that lapse together must be timed out oldest first.",
        "One connection, one session, policy None; completeness only claimed for items that sample every timer tick and live to the end of the drain.", "7/C21"),
"C22": ("fault_enumeration", "deterministic simulation: enumerated keep-alive/lifetime/publishing/request-availability grid on virtual time plus seeded variations; interval-count oracle",
        "Grid keep-alive 1..12 x lifetime {3k,3k+1,3k+5,40} x enabled/disabled x requests {always, never with probes before/after the lifetime, requests until the keep-alive state then never, every 2nd/3rd interval}; oracle in whole publishing intervals with one interval of slack.",
        "Timer 100 ms on a paused tokio clock; expiry is observed by offering one publish request at the probe point.", "7/C22"),
"C24": ("exploration", "deterministic simulation: seeded sample/resize histories through the real services and timer; bounded-queue reference model per notification",
        "Items sampled every tick with publishing every 2-10 ticks, queue sizes 1..12, both discard policies, ModifyMonitoredItems growing/shrinking non-empty queues; ModifyMonitoredItems with a filter the server must refuse; oracle: size bound, order, surviving entries, overflow info bit, a valid modify never fails, a refused modify changes nothing.",
        "Publish requests always available (so that C21's clauses do not interfere); one write per tick.", "7/C24"),
"C25": ("exploration", "deterministic simulation: seeded value/status/timestamp histories set by an application actor; last-reported reference model per filter",
        "Trigger x deadband {none, absolute, percent} x value; TimestampsToReturn {neither, source, server, both}, Server_ResendData calls, modifies with unusable filters; oracle: reported sequence equals the model's; an accepted filter (create or modify) must be able to report a large change; a refused modify leaves the old filter in force.",
        "Double variables without EURange; one direct write per tick.", "7/C25"),
"C26": ("exploration", "deterministic simulation with clock faults: request-header timestamps (past/future/null/min/max), wall-clock jumps +-(1 ms..10 y), off-phase sleeps; no-panic and timeout-direction oracle",
        "Histories as in C21 with the clock fault kinds enabled; oracle: no panic in any server task (panic hook + connection liveness) and BadTimeout only after the timeout elapsed since the request timestamp.",
        "Wall clock through the verif::clock seam following the paused tokio clock plus injected skew.", "7/C26"),
"C27": ("exploration", "deterministic simulation: seeded histories with 2-4 subscriptions of distinct priorities all ready and scarce publish requests; per-server-pass order oracle",
        "ModifySubscription priority changes and the boundary priorities 0 / 255 included. Oracle: within one server pass (same response timestamp) notifications are in descending priority and the timer pass starts with the highest-priority subscription that has undelivered data.",
        "Readiness is derived from the harness's own writes; clock-jump runs are excluded.", "7/C27"),
"C40": ("exploration", "deterministic simulation: seeded publish/ack/republish/delete histories; retained-set reference model",
        "Acknowledgements {valid, duplicate in a later request, duplicate inside one request, newest only, unknown sequence, unknown subscription}, Republish {last, first, acknowledged, unknown}, subscription deletion; oracle: republished == original, unavailable after a Good ack, unknown ack -> BadSequenceNumberUnknown, retained while well below the retransmission capacity.",
        "Availability is asserted while the retransmission queue cannot have been over its capacity of 4 x subscriptions, counting unread responses, subscriptions that may have expired, and subscriptions created or deleted since the last read; keep-alive numbers are never acknowledged or republished (they carry no notification).", "7/C40"),
"C28": ("exploration", "deterministic simulation: seeded reference insert/delete/node-delete histories from 1-2 sessions (real services) and an application actor (AddressSpace API); triple-set reference model compared after every step",
        "Oracle: forward references, inverse references and has_reference of every node of a small universe equal the model after each operation; opposite-direction pairs, several reference types between one pair and nodes nothing refers to yet are generated deliberately.",
        "Requests are serialised by the address-space write lock (interleaving at request granularity); observation restricted to the harness universe and three reference types.", "7/C28"),
"C29": ("exploration", "deterministic simulation: seeded small reference graphs with aggregation cycles and shared children, then DeleteNodes via service or API; termination + dangling-reference oracle",
        "Oracle: the call returns (worker process alive, watchdog), the node and everything it transitively aggregates are gone and no reference mentions a removed node. A stack overflow kills the worker and is reported as a crash with the plan as replay.",
        "Crash detection relies on worker process isolation; delete_target_references=true; some references are deleted again before the node delete, some nodes have no other referrer.", "7/C29"),
"C34": ("exploration", "deterministic simulation: seeded AddNodes/AddReferences/DeleteNodes/DeleteReferences histories with node ids planted just ahead of the server's id counter; result-vs-state oracle",
        "Oracle: Good AddNodes => node exists and the given parent has a forward reference of the given type to it; any Bad item leaves the state digest unchanged; server-assigned ids never equal an existing node id; a non-local parent is never accepted. Directed add / delete (with or without target references) / add-again histories of one id are mixed in.",
        "State digest covers the harness universe (known, requested, returned and candidate ids).", "7/C34"),
"C19": ("exploration", "deterministic simulation: seeded session/request/time-out/channel histories from raw clients (1-2 connections) against the real server tasks on virtual time; authorisation reference model + state digest",
        "Oracle (one direction): a request whose token the model does not authorise (unknown, null, closed, unactivated, other connection, other channel, timed out) gets a ServiceFault and leaves the state digest unchanged; CloseSession invalidates the token.",
        "Time-out boundary +-3 ms excluded; digest = variable value, added nodes, subscription counters.", "7/C19"),
"C20": ("exploration", "deterministic simulation: generated endpoint/user configurations x seeded ActivateSession histories including malformed ciphertexts and replays after nonce rotation; configuration oracle",
        "Oracle (one direction): ActivateSession Good => the configured condition for that token kind holds for the session's current nonce; a token encrypted for an earlier nonce is never accepted.",
        "Anonymous, user-name (plain / encrypted) and X.509 user tokens (two X.509 users, a subset allowed per endpoint; right key, wrong key, wrong nonce, no signature) over None and secured channels (RSA 2048); replays of the token alone and of the whole request; a successful activation on a secured channel must rotate the nonce.", "7/C20"),
"C30": ("exploration", "deterministic simulation: seeded Browse/BrowseNext/release/reuse histories interleaved with address-space modifications from 1-2 sessions; paged-equals-unpaged and continuation-point lifecycle oracle",
        "Oracle: concatenated pages == unpaged Browse in the same state; a point works once; invalid after release or any structural change; at most 20 points per session stay valid (dedicated overflow runs). Modifications include DeleteNodes with and without target references.",
        "Nodes have fewer than 255 references; wall clock strictly increasing so last_modified timestamps never tie.", "7/C30"),
"C32": ("exploration", "deterministic simulation: seeded Read/Write histories (types, index ranges, attribute ids) from two sessions while an application actor flips access levels; register reference model",
        "Oracle: Good write => the user access level has CurrentWrite (history bits vary independently) and the type is compatible; a Good write is what the next Read returns (ranges modelled for 1-D arrays, ASCII strings, byte strings), what it stores has the variable's data type (Byte[] of rank 1 / 0 / -2 vs ByteString), a Good index-range write is readable with the same range; a rejected write or a write to another attribute changes nothing; every attribute id of variables, objects, methods, types and unknown nodes returns a status, no panic.",
        "Non-ASCII strings and multi-dimensional ranges: no-panic, unchanged-on-reject and read-back-after-Good only.", "7/C32"),
"C33": ("exploration", "deterministic simulation (swarm): structure-aware random requests of every session-bound service plus ActivateSession with crafted tokens, interleaved with timer ticks and raised events, against the real server tasks; crash / liveness oracle with process isolation",
        "Oracle: every request is answered by a response or ServiceFault, no server task panics (panic hook), the worker process survives (stack overflow / abort detection, watchdog) and a trailing Read still succeeds.",
        "Requests are structurally valid (typed structures through the real encoder): fully random items plus near-valid items with exactly one unusual field, event-filter operands whose paths resolve to real nodes of every class; 12% of runs use a signed channel so sessions have a real nonce.", "7/C33"),
"C02": ("exploration", "deterministic simulation with a corrupting channel: well-formed requests of every service (and hand-assembled Write / Call / CreateMonitoredItems / Read-response bodies) are corrupted in flight (bit flips, byte and length overwrites, truncation, type-id swaps, nesting prefixes up to 200000 levels of DataValue>Variant, Variant>Variant, DiagnosticInfo inner-info, ExtensionObject, arrays of arrays) and delivered to the real server reader loop or, from a scripted server, to the real client transport, both on a 2 MiB-stack thread; a process-wide allocation counter brackets every delivered message",
        "Oracle: no panic, no worker death (stack overflow / allocation failure), peak allocation per message <= 64 x max message size + 8 MiB, nesting beyond the decoding depth is not accepted, the receiver still serves a fresh connection.",
        "Policy None. Not byte-exhaustive: mutations are sampled; the chunk / security layer is C09, frame sizes are C10.", "7/C02"),
"C07": ("exploration", "deterministic simulation: two channel roles (real SendBuffer / MessageWriter -> secure channel -> codec -> chunker) joined by a reliable simulated stream; enumerated configuration grid + seeded sizes; conservation oracle",
        "Grid policy x mode x key size x chunk size x direction with message sizes placed on chunk boundaries, MSG and OPN; oracle: decoded == sent, consecutive sequence numbers, one request id, final flag last, no chunk above the negotiated size (both roles).",
        "Channel pairs are set up through the SecureChannel setters the OpenSecureChannel services call; quick tier without 4096-bit keys.", "7/C07"),
"C08": ("fault_enumeration", "deterministic simulation with a corrupting channel: every byte offset flipped, every truncation length, extensions, foreign keys / certificate / token, for every secured configuration; never-delivered oracle",
        "Oracle: the receiver delivers nothing, or only the original message from byte-identical frames.",
        "Quick: key sizes 1024/2048, one message size; thorough: + 4096 and three sizes.", "7/C08"),
"C09": ("exploration", "deterministic simulation with a Byzantine raw peer: structure-aware malformed OPN/MSG/CLO chunks against the receive path in every reachable channel state; totality (no-panic) oracle",
        "40 mutations per run (length fields -1/0/huge, truncation below header+signature, wrong chunk type, random frames, bit flips) x receiver states {keys established, policy set without keys, fresh, fresh with certificate} x all policies/modes/roles.",
        "Panics are caught per mutation, so one run reports every panic site it reaches.", "7/C09"),
"C10": ("exploration", "deterministic simulation: seeded chunk histories beyond the server's limits and oversized frame headers from a raw client against the real reader loop; resource-bound invariant read after every delivered chunk",
        "Oracle: pending chunks <= max chunk count and pending bytes <= max message size after every step; the offending chunk ends the connection; an oversized declared frame is refused within 200 virtual ms; a legal one is not.",
        "Pending buffer observed through the guarded accessor TcpTransport::verif_pending_chunks; policy None.", "7/C10"),
"C12": ("exploration", "deterministic simulation: (a) seeded message histories through the real SendBuffer / MessageWriter with sequence headers inspected; (b) MITM reorder / duplicate / drop / hold / replay of a raw client's chunks before the real server reader loop; accepted-implies-fresh oracle",
        "Oracle: chunk numbers step by exactly one, request ids unique; a message the server answers consisted of consecutive numbers above every accepted one with one request id; a replayed accepted message is not answered again.",
        "Policy None so the MITM stage can read sequence headers. The client-side receiver is exercised in C35's world (duplicate, unknown-id, reordered and incomplete multi-chunk responses; an incomplete message completing Ok is reported as C12/incomplete-message-accepted).", "7/C12"),
"C18": ("fault_enumeration", "deterministic simulation with a disk node: the enumerated decision table (9216 configurations) plus seeded histories of validations interleaved with administrator moves, disk faults on stored copies / store directories and simulated clock jumps, against the real CertificateStore on a scratch PKI directory; decision-table reference model",
        "Oracle: Good => not in rejected/, byte-identical trusted copy (or trust-unknown and no copy), key length valid for the policy, and unless skip-verify: inside validity at the simulated time (when check-time), host and URI match; unknown and untrusted => in rejected/ afterwards; accepted => not in rejected/ afterwards.",
        "Runs as root: permission faults not injectable. Wall clock through the verif clock seam (fixed mode).", "7/C18"),
"C35": ("exploration", "deterministic simulation, client side: the real AsyncSecureChannel + client TcpTransport event loop on a paused seeded tokio runtime against a scripted raw server (verif::net connector seam); seeded schedules of request submissions with individual deadlines and per-request server behaviour (prompt / slow multi-chunk / late / silent / duplicate / unknown id / abort / undecodable) plus server- or client-side close; history oracle over completion times and statuses",
        "Oracle: every request completes by the end of the run; Ok carries the response built for that request; BadTimeout never before the deadline nor when a complete response was delivered >1 ms before it; abort => BadCommunicationError; closed-class statuses only after a scripted close cause and always error statuses; BadTimeout not later than 10 ms + a quarter of the time-out after the deadline (virtual time); the transport never closes without a scripted cause (unknown / expired / duplicate responses are ignored).",
        "Policy None. The scripted server sends the chunks of one message contiguously. Observation outside the property: TransportState::close can wait forever (see DESIGN.md).", "7/C35"),
"C36": ("exploration", "deterministic simulation, client side: the real client Session with its session and subscription event loops against a scripted raw server that decides per arriving PublishRequest (notification / keep-alive / service fault / silence / late / held); the server-side history of acknowledgements is checked after a fault-free quiescence phase",
        "Oracle: every data notification delivered in time is acknowledged by a later publish request; an acknowledgement carried by a successfully answered request is never carried again (nor twice in one request); acknowledgements carried by a failed request are carried again later.",
        "Policy None, anonymous. Keep-alives in both legal encodings (null and empty array). Connection loss is outside the property's quantifier and not injected. Success/failure of a request is decided with a 3 ms margin around the client's deadline; in between either is accepted.", "7/C36"),
"C38": ("exploration", "deterministic simulation: (a) lock seam in record mode under the two-connection service swarm with timer ticks, disconnects and an application actor: per-run lock graph over instances with modes, call sites and gate locks, searched for mode- and gate-feasible cycles; (b) baton threads (L3): two real OS threads, one connection each, run real server code; every blocking lock acquisition is a scheduling point decided by a seeded scheduler over a reader/writer lock model; a state with every unfinished thread parked and none grantable is a deadlock and the choice sequence is the replay schedule",
        "Oracle: no feasible cycle in the held->acquired graph (Read-vs-Read edges do not block; two edges serialised by a common exclusively-held gate lock cannot coexist); no re-entrant acquisition of one instance when a writer exists; no reachable deadlock under the baton scheduler.",
        "Requests under the other connection's session token are part of the swarm (a Session instance locked from two connection tasks). Server construction and application set-up are not recorded (no task exists yet). Signatures name the lock types of the cycle and the file in which the out-of-order outer lock was taken (documented order ServerState, Session, AddressSpace is used for naming only). 8 known findings (Call and CreateSession paths), see DESIGN.md.", "7/C38"),
"C14": ("exploration", "deterministic simulation: seeded interleavings of requests, renew-begin / renew-end and forged-token requests from a raw client on secured channels against the real server tasks (token-epoch reference model, acceptance observed through the request's effect), and of the real client's own renewals against a scripted server that answers held requests under the new token",
        "Oracle: a request secured under the server's current token, or the previous one while nothing newer has been received, takes effect; a request under a never-issued token (foreign keys or unknown token id) never does.",
        "Two halves: server side (raw client, all policies x Sign/SignAndEncrypt, RSA 2048) and client side (every third run: the real AsyncSecureChannel renews at 75 % of a 1-4 s lifetime while the scripted server still owes responses and answers them under the new token in the same burst as, or shortly after, its OpenSecureChannel response).", "7/C14"),
}

def main():
    hooks = subprocess.run(["git","-C","/repo","log","--format=%h %s"],capture_output=True,text=True).stdout.splitlines()
    hook_commits = [l.split()[0] for l in hooks if l.split(" ",1)[1].startswith("verif hooks:")]
    checks=[]
    for pid,(level,tech,text,note,ref) in sorted(CHECKS.items()):
        checks.append({
            "property_id": pid,
            "quick_cmd": f"./check quick {pid}",
            "thorough_cmd": f"./check thorough {pid}",
            "evidence_file": f"/verif/evidence/{pid}.json",
            "replay_cmd_template": "./check replay {path}",
            "engine": "opcua-sim",
            "level_claimed": {"category": level, "text": text, "design_ref": f"DESIGN.md section {ref}"},
            "level_note": note,
            "technique": tech,
        })
    na=[{"property_id":k,"reason":v} for k,v in NA.items()]
    for k in PLANNED:
        if k not in CHECKS:
            na.append({"property_id":k,"reason":"simulation check planned (DESIGN.md section 7) but not built yet; not claimed until it runs"})
    m={
     "version":1,
     "setup_cmd":"./check build",
     "hooks":{"guard":"locka99_opcua_verif","enable":"RUSTFLAGS='--cfg locka99_opcua_verif --cfg tokio_unstable' (set by /verif/check; /verif/sim depends on /repo/lib by path)",
              "baseline_off_cmd":"cd /repo && cargo nextest run --workspace --no-fail-fast --tool-config-file pb:/w/lib/nextest.toml --profile pb --test-threads 8 --offline",
              "source_commits":hook_commits,"add_only":True},
     "engines":[{"name":"opcua-sim","path":"/verif/sim","serves_properties":sorted(CHECKS.keys()),"kind_free_text":"deterministic simulation harness: seeded plan generator, discrete-event / paused-tokio executor over the real opcua code, fault injection, journals, delta-debugging minimiser, replay files"}],
     "checks":checks,
     "notes":"Technique family: deterministic simulation with fault injection. See DESIGN.md. known_findings.txt lists recorded findings and fixes.",
     "not_applicable": sorted(na,key=lambda x:x["property_id"]),
    }
    json.dump(m, open(os.path.join(ROOT,"MANIFEST.json"),"w"), indent=1)
    print("claimed:",sorted(CHECKS.keys()))
main()
