#!/usr/bin/env python3
"""Regenerates /verif/MANIFEST.json from the tables below (single source of truth for what is claimed)."""
import json, subprocess, os
ROOT = os.path.dirname(os.path.dirname(os.path.abspath(__file__)))

NA = {
"C01":"pure function of one value (decode(encode(v))==v over in-memory cursors); no schedule, clock, peer or fault to simulate; whole-message transfer between two parties is covered by C07",
"C03":"accept/reject at a length boundary is a pure function of (bytes, options); the stream-facing half (oversized frame refused before buffering) is decided inside C10",
"C04":"parse(print(x))==x for identifiers is a pure function of x; no nondeterminism or fault surface",
"C05":"relative path print/parse is a pure function of the path value",
"C06":"numeric conversion/cast is a pure function of (value, target type)",
"C13":"P_SHA key derivation is a pure function of (policy, nonces); role agreement is exercised implicitly by every secured exchange in C07/C14 but RFC conformance cannot be decided by simulation",
"C16":"password encrypt/decrypt is a pure function of (password, nonce, key, padding); no schedule/clock/fault",
"C17":"sign/verify is a pure function of (key, certificate, nonce, signature)",
"C23":"revised values are a pure function of (request, limits)",
"C31":"path translation is a query on a fixed address space: pure function of (graph, path)",
"C37":"back-off sequence is a pure function of (initial, max, limit)",
"C39":"filter evaluation is a pure function of (filter, event)",
"C41":"load(save(c))==c: file is a pass-through, statement says nothing about interrupted writes",
"C42":"JSON round trip is a pure function of the value",
}
PLANNED = ["C02","C07","C08","C09","C10","C11","C12","C14","C15","C18","C19","C20","C21","C22","C24","C25","C26","C27","C28","C29","C30","C32","C33","C34","C35","C36","C38","C40"]

# id -> (level, technique, text, note, design_ref)
CHECKS = {
"C11": ("fault_enumeration", "deterministic simulation: seeded + enumerated read segmentations / partial-write-Pending-cancel schedules against the real codec and send buffer",
        "Every composition of a 16-byte frame and every 1- and 2-cut split of a multi-frame stream is enumerated, plus seeded random streams/segmentations and send-buffer write schedules; oracle: same frames / same bytes as the sender produced.",
        "Simulated AsyncRead/AsyncWrite stand in for the socket; send-buffer part uses policy None.", "7/C11"),
"C15": ("fault_enumeration", "deterministic simulation: enumerated + seeded frame histories from a raw client against the real server transport tasks on a paused seeded tokio runtime",
        "Every HEL/OPN/MSG/CLO history of length <=4 (quick) / <=5 (thorough) plus seeded longer histories with segmentation and pauses; oracle: protocol state machine over what appears on the wire.",
        "In-memory duplex stream through the verif::net seam instead of a TCP socket; policy None.", "7/C15"),
}

def main():
    hooks = subprocess.run(["git","-C","/repo","log","--format=%h %s"],capture_output=True,text=True).stdout.splitlines()
    hook_commits = [l.split()[0] for l in hooks if l.split(" ",1)[1].startswith("verif hooks:")]
    checks=[]
    for pid,(level,tech,text,note,ref) in sorted(CHECKS.items()):
        checks.append({
            "property_id": pid,
            "quick_cmd": f"./check quick {pid}",
            "thorough_cmd": f"./check thorough {pid}",
            "evidence_file": f"/verif/evidence/{pid}.json",
            "replay_cmd_template": "./check replay {path}",
            "engine": "opcua-sim",
            "level_claimed": {"category": level, "text": text, "design_ref": f"DESIGN.md section {ref}"},
            "level_note": note,
            "technique": tech,
        })
    na=[{"property_id":k,"reason":v} for k,v in NA.items()]
    for k in PLANNED:
        if k not in CHECKS:
            na.append({"property_id":k,"reason":"simulation check planned (DESIGN.md section 7) but not built yet; not claimed until it runs"})
    m={
     "version":1,
     "setup_cmd":"./check build",
     "hooks":{"guard":"locka99_opcua_verif","enable":"RUSTFLAGS='--cfg locka99_opcua_verif --cfg tokio_unstable' (set by /verif/check; /verif/sim depends on /repo/lib by path)",
              "baseline_off_cmd":"cd /repo && cargo nextest run --workspace --no-fail-fast --tool-config-file pb:/w/lib/nextest.toml --profile pb --test-threads 8 --offline",
              "source_commits":hook_commits,"add_only":True},
     "engines":[{"name":"opcua-sim","path":"/verif/sim","serves_properties":sorted(CHECKS.keys()),"kind_free_text":"deterministic simulation harness: seeded plan generator, discrete-event / paused-tokio executor over the real opcua code, fault injection, journals, delta-debugging minimiser, replay files"}],
     "checks":checks,
     "notes":"Technique family: deterministic simulation with fault injection. See DESIGN.md. known_findings.txt lists recorded findings and fixes.",
     "not_applicable": sorted(na,key=lambda x:x["property_id"]),
    }
    json.dump(m, open(os.path.join(ROOT,"MANIFEST.json"),"w"), indent=1)
    print("claimed:",sorted(CHECKS.keys()))
main()
