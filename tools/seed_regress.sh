#!/bin/bash
# Regression over the kept seeded changes: applies every /verif/seeded/<name>/patch.diff (optionally only
# those whose name matches one of the given prefixes) to a scratch worktree of /repo, runs the quick check
# of its property from a scratch copy of /verif, and reports CAUGHT / MISSED. Changes whose meta.json says
# verdict=not-a-violation are expected to pass. /repo and /verif/target are not touched.
# usage: tools/seed_regress.sh [name-prefix ...]      (do not run next to selftest_mutants.py --scratch)
set -u
S=/tmp/opcua-verif-mutants
R=$S/repo; V=$S/verif
mkdir -p $S
if [ ! -d $R ]; then git -C /repo worktree add --detach $R HEAD >/dev/null 2>&1; else git -C $R checkout -q -- . ; git -C $R checkout -q --detach $(git -C /repo rev-parse HEAD); fi
mkdir -p $V && rsync -a --delete --exclude target --exclude work --exclude replays --exclude evidence /verif/ $V/ && mkdir -p $V/replays $V/evidence
sed -i "s#path = \"/repo/lib\"#path = \"$R/lib\"#" $V/sim/Cargo.toml
sed -i "s#target-dir = \"/verif/target\"#target-dir = \"$V/target\"#" $V/sim/.cargo/config.toml
n=0; caught=0; missed=""
for d in /verif/seeded/C*-*; do
    name=$(basename $d)
    if [ $# -gt 0 ]; then ok=0; for p in "$@"; do case $name in $p*) ok=1;; esac; done; [ $ok = 1 ] || continue; fi
    id=${name%%-*}
    benign=$(python3 -c "import json;print(json.load(open('$d/meta.json')).get('verdict',''))" 2>/dev/null)
    if ! git -C $R apply --check $d/patch.diff 2>/dev/null; then echo "SKIP    $name (patch does not apply)"; continue; fi
    git -C $R apply $d/patch.diff
    # make sure cargo sees the change (an mtime not newer than the previous build's would be taken as fresh)
    sleep 1; (cd $R && git diff --name-only | xargs -r touch)
    out=$(cd $V && ./check quick $id 2>&1); rc=$?
    git -C $R checkout -q -- .
    n=$((n+1))
    sig=$(echo "$out" | grep -m1 "^  $id/" | cut -c1-110)
    if [ "$benign" = "not-a-violation" ]; then
        if [ $rc = 0 ]; then echo "PASS-OK $name (judged not a violation)"; caught=$((caught+1)); else echo "ALARM   $name rc=$rc $sig"; missed="$missed $name"; fi
    elif [ $rc = 1 ]; then echo "CAUGHT  $name $sig"; caught=$((caught+1))
    else echo "MISSED  $name rc=$rc"; missed="$missed $name"; fi
done
echo "seed regression: $n run, $caught as expected; not as expected:$missed"
