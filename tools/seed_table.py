#!/usr/bin/env python3
"""Rewrite the block between <!-- R2-TABLE-BEGIN --> and <!-- R2-TABLE-END --> in DESIGN.md with the
round-2 seeded changes that were missed at first (from seeded/*-r2-*/meta.json)."""
import json, glob, os, re
rows = []
for d in sorted(glob.glob('/verif/seeded/C*-r2-*')):
    m = json.load(open(d + '/meta.json'))
    if m.get('note_after'):
        rows.append((os.path.basename(d), m.get('title', '').replace('|', '/'), m['note_after'].replace('|', '/')))
t = "| change | what it does | why it was missed at first, what was added |\n|---|---|---|\n" + "".join(f"| {a} | {b} | {c} |\n" for a, b, c in rows)
p = '/verif/DESIGN.md'; s = open(p).read()
s = re.sub(r'<!-- R2-TABLE-BEGIN -->.*?<!-- R2-TABLE-END -->', '<!-- R2-TABLE-BEGIN -->\n' + t + '<!-- R2-TABLE-END -->', s, flags=re.S)
open(p, 'w').write(s)
print(len(rows), "rows")
