#!/bin/bash
# Prepare a scratch worktree of /repo for a seeded-change sub-agent: /tmp/seed-<ID> with the
# property text in PROPERTY.md and an empty out/ directory. Nothing from /verif is copied.
set -eu
id="$1"
d=/tmp/${SEED_PREFIX:-seed}-$id
git -C /repo worktree remove --force "$d" 2>/dev/null || true
rm -rf "$d"
git -C /repo worktree add --detach "$d" HEAD >/dev/null 2>&1
mkdir -p "$d/out"
python3 - "$id" "$d" <<'PY'
import json,sys
pid,d=sys.argv[1],sys.argv[2]
for l in open('/verif/properties.jsonl'):
    p=json.loads(l)
    if p['id']==pid:
        with open(d+'/PROPERTY.md','w') as f:
            f.write("# %s  %s\n\n## Statement\n%s\n\n## Quantified over\n%s\n\n## Why the existing tests cannot settle it\n%s\n\n## Where it lives\nfiles: %s\nmechanism: %s\n" % (
                p['id'],p['title'],p['statement'],p['quantifier']['text'],p.get('why_tests_cant',''),
                ", ".join(p['anchors'].get('files',[])),
                "; ".join("%s (%s)"%(m['name'],m['where']) for m in p['anchors'].get('mechanism',[]))))
PY
echo "$d"
