#!/usr/bin/env python3
"""Write /verif/seeded/INDEX.md from the meta.json files of the kept seeded changes."""
import json, glob, os
rows=[]
for d in sorted(glob.glob('/verif/seeded/C*-*')):
    try: m=json.load(open(d+'/meta.json'))
    except Exception: continue
    name=os.path.basename(d)
    caught=", ".join(m.get('caught_by',[])) or ("not a violation (see remark)" if m.get('verdict')=='not-a-violation' else "**missed**")
    first=""
    for c in m.get('checks_run',[]):
        if c.get('first_violation'):
            first=c['first_violation'].strip().split(' :: ')[0]; break
    rows.append((name,m.get('title',''),", ".join(m.get('files',[])),m.get('kind',''),caught,first,m.get('note_after','')))
with open('/verif/seeded/INDEX.md','w') as f:
    f.write("# Seeded changes\n\nEach directory holds `patch.diff` (applies to /repo with `git -C /repo apply`), `demo.md` (the author's demonstration of the violation) and `meta.json`.\nThe changes were written by sub-agents that saw only the property text and a scratch worktree. Every one compiles with and without the verification cfg and passes the library's 369 unit tests (author's run, recorded in meta.json).\n`caught by` is the result of applying the patch to /repo and running `./check quick <ID>`; /repo was restored afterwards.\n\n")
    f.write("| change | title | files | kind | caught by | first signature | remark |\n|---|---|---|---|---|---|---|\n")
    for r in rows: f.write("| "+" | ".join(x.replace('|','/') for x in r)+" |\n")
    n=len(rows); b=sum(1 for r in rows if r[4].startswith("not a violation")); c=sum(1 for r in rows if r[4]!="**missed**")-b
    f.write(f"\n{c} of {n-b} property-breaking seeded changes are detected by the check of the property they were written against; {b} seeded change(s) were judged not to break the property as stated and are deliberately not flagged.\n")
print(open('/verif/seeded/INDEX.md').read()[-300:])
