#!/bin/bash
# Confirm one seeded change: apply it to /repo, run the quick check(s), restore /repo, and keep it
# under /verif/seeded/<ID>-<n>/. usage: tools/seed_confirm.sh <ID> <n> [more check ids...]
set -u
id="$1"; n="$2"; shift 2
checks="$id $*"
src=/tmp/seed-$id/out
cd /verif
if ! git -C /repo diff --quiet; then echo "refusing: /repo has uncommitted changes"; exit 2; fi
if ! git -C /repo apply --check "$src/patch$n.diff" 2>/dev/null; then echo "patch$n does not apply"; exit 2; fi
git -C /repo apply "$src/patch$n.diff"
dst=seeded/$id-$n
mkdir -p "$dst"
cp "$src/patch$n.diff" "$dst/patch.diff"
cp "$src/demo$n.md" "$dst/demo.md" 2>/dev/null
results="[]"
for c in $checks; do
    out=$(./check quick "$c" 2>&1); rc=$?
    sig=$(echo "$out" | grep -m1 "^  $c/" | cut -c1-400)
    foreign=$(echo "$out" | grep -m1 "^note: observation attributed" | cut -c1-300)
    echo "$c rc=$rc ${sig:-$foreign}"
    results=$(python3 - "$results" "$c" "$rc" "$sig" "$foreign" <<'PY'
import json,sys
r=json.loads(sys.argv[1]); r.append({"check":sys.argv[2],"exit":int(sys.argv[3]),"first_violation":sys.argv[4],"note":sys.argv[5]}); print(json.dumps(r))
PY
)
done
git -C /repo checkout -- .
python3 - "$src/meta$n.json" "$dst/meta.json" "$results" <<'PY'
import json,sys
try: m=json.load(open(sys.argv[1]))
except Exception: m={}
r=json.loads(sys.argv[3])
m["checks_run"]=r
m["caught_by"]=[x["check"] for x in r if x["exit"]==1 and x["first_violation"]]
m["confirmed_by"]="applied to /repo, ./check quick run against it, /repo restored"
json.dump(m,open(sys.argv[2],"w"),indent=1)
print("caught_by:",m["caught_by"])
PY
