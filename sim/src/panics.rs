//! Panic capture: a quiet hook that remembers where the panic came from, and a `catch` wrapper.

use std::cell::RefCell;
use std::panic::{self, AssertUnwindSafe};

#[derive(Clone, Debug)]
pub struct Caught {
    pub file: String,
    pub line: u32,
    pub message: String,
}

impl Caught {
    /// Stable discriminator: file (repo-relative) + message head with digits normalised.
    /// Line numbers are left out so that unrelated edits above the site do not change it.
    pub fn discriminator(&self) -> String {
        let mut f = self.file.clone();
        if let Some(p) = f.find("lib/src/") {
            f = f[p + 8..].to_string();
        }
        let mut msg = String::new();
        let mut last_digit = false;
        // tokens that look like node ids / quoted data are replaced, so that one panic site gives one signature
        let cleaned: Vec<String> = self
            .message
            .split(' ')
            .map(|t| {
                if t != "==" && t != "!=" && (t.contains('=') || t.contains(';')) {
                    "ID".to_string()
                } else if t.starts_with('\'') && t.chars().count() <= 4 {
                    "CH".to_string()
                } else {
                    t.to_string()
                }
            })
            .collect();
        let cleaned = cleaned.join(" ");
        for c in cleaned.chars().take(60) {
            if c.is_ascii_digit() {
                if !last_digit {
                    msg.push('N');
                }
                last_digit = true;
            } else {
                last_digit = false;
                if c.is_whitespace() {
                    msg.push('_');
                } else if c == '"' || c == '\\' {
                    msg.push('\'');
                } else {
                    msg.push(c);
                }
            }
        }
        format!("{}:{}", f, msg)
    }
    pub fn describe(&self) -> String {
        format!("panic at {}:{}: {}", self.file, self.line, self.message)
    }
}

thread_local! {
    static LAST: RefCell<Option<Caught>> = RefCell::new(None);
}

pub fn install_hook() {
    panic::set_hook(Box::new(|info| {
        let (file, line) = info
            .location()
            .map(|l| (l.file().to_string(), l.line()))
            .unwrap_or_else(|| ("?".to_string(), 0));
        let message = if let Some(s) = info.payload().downcast_ref::<&str>() {
            s.to_string()
        } else if let Some(s) = info.payload().downcast_ref::<String>() {
            s.clone()
        } else {
            "<non-string panic>".to_string()
        };
        LAST.with(|l| {
            *l.borrow_mut() = Some(Caught {
                file,
                line,
                message,
            })
        });
    }));
}

/// A panic recorded by the hook since the last `catch` began (panics inside spawned tokio tasks
/// are caught by the runtime, not by `catch`).
pub fn take_last() -> Option<Caught> {
    LAST.with(|l| l.borrow_mut().take())
}

pub fn catch<R>(f: impl FnOnce() -> R) -> Result<R, Caught> {
    LAST.with(|l| *l.borrow_mut() = None);
    match panic::catch_unwind(AssertUnwindSafe(f)) {
        Ok(r) => Ok(r),
        Err(_) => Err(LAST.with(|l| l.borrow_mut().take()).unwrap_or(Caught {
            file: "?".into(),
            line: 0,
            message: "unknown panic".into(),
        })),
    }
}

/// True if the panic originated inside the code under test (the opcua crate or one of its
/// dependencies) rather than inside the harness.
pub fn in_real_code(c: &Caught) -> bool {
    !c.file.contains("/verif/sim/") && !c.file.starts_with("src/")
}
