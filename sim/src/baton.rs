//! Layer L3: baton threads. Real OS threads run real server code, but only the thread holding the
//! baton runs. Every blocking lock acquisition (H5 lock seam, `before_acquire`) is a scheduling
//! point: the thread parks, and the seeded scheduler hands the baton to one of the parked threads
//! whose acquisition is grantable under a small model of the lock (writer / reader set). Because
//! only grantable acquisitions are released, the underlying `parking_lot` lock never blocks.
//! "Every unfinished thread is parked and none is grantable" is a deadlock; the sequence of
//! scheduling choices is the replay schedule.

use crate::rng::Rng;
use opcua::verif::sync::{Kind, LockEvent, Observer};
use std::cell::Cell;
use std::collections::BTreeMap;
use std::sync::{Arc, Condvar, Mutex};

thread_local! {
    static TID: Cell<Option<usize>> = Cell::new(None);
}

/// Payload of the panic that unwinds parked threads after a deadlock verdict.
pub struct Abort;

#[derive(Clone, Debug)]
enum TState {
    NotStarted,
    Running,
    /// parked before acquiring (instance id, class, kind, site)
    Parked(usize, String, Kind, String),
    ParkedStart,
    Finished,
}

#[derive(Default, Clone, Debug)]
struct LockState {
    writer: Option<usize>,
    readers: Vec<usize>,
    class: String,
    /// where each holder took it: (thread, site)
    sites: Vec<(usize, String)>,
}

pub struct State {
    rng: Rng,
    threads: Vec<TState>,
    locks: BTreeMap<usize, LockState>,
    id_of: BTreeMap<usize, usize>,
    next_id: usize,
    running: Option<usize>,
    /// scheduling choices made so far (thread index per decision with more than one candidate)
    pub choices: Vec<usize>,
    /// forced choices (replay)
    script: Option<Vec<usize>>,
    script_pos: usize,
    pub grants: u64,
    pub aborted: bool,
    pub deadlock: Option<Deadlock>,
    pub divergence: Option<String>,
    pub decisions_with_choice: u64,
}

#[derive(Clone, Debug)]
pub struct Deadlock {
    /// per blocked thread: (thread, wants class, kind, site, held classes)
    pub waiting: Vec<(usize, String, Kind, String, Vec<String>)>,
    pub signature_classes: Vec<String>,
    pub culprits: Vec<String>,
}

pub struct Baton {
    pub state: Mutex<State>,
    cv: Condvar,
}

impl State {
    fn id(&mut self, addr: usize) -> usize {
        if let Some(i) = self.id_of.get(&addr) {
            return *i;
        }
        self.next_id += 1;
        self.id_of.insert(addr, self.next_id);
        self.next_id
    }

    fn grantable(&self, t: usize, inst: usize, kind: Kind) -> bool {
        match self.locks.get(&inst) {
            None => true,
            Some(l) => match kind {
                // parking_lot read locks are not re-entrant-safe, but a recursive read succeeds
                // when no writer holds the lock
                Kind::Read => l.writer.is_none(),
                _ => l.writer.is_none() && l.readers.is_empty() && !(l.writer == Some(t)),
            },
        }
    }

    fn held_by(&self, t: usize) -> Vec<String> {
        let mut v = Vec::new();
        for l in self.locks.values() {
            if l.writer == Some(t) || l.readers.contains(&t) {
                let site = l.sites.iter().rev().find(|s| s.0 == t).map(|s| s.1.clone()).unwrap_or_default();
                v.push(format!("{}@{}", l.class, site));
            }
        }
        v.sort();
        v
    }

    /// Hand the baton to a parked thread, or detect termination / deadlock.
    fn schedule(&mut self) {
        if self.running.is_some() || self.aborted {
            return;
        }
        let mut cands: Vec<usize> = Vec::new();
        for (t, st) in self.threads.iter().enumerate() {
            match st {
                TState::ParkedStart => cands.push(t),
                TState::Parked(inst, _, kind, _) => {
                    if self.grantable(t, *inst, *kind) {
                        cands.push(t);
                    }
                }
                _ => {}
            }
        }
        if cands.is_empty() {
            let unfinished: Vec<usize> = self.threads.iter().enumerate().filter(|(_, s)| !matches!(s, TState::Finished)).map(|(t, _)| t).collect();
            let all_parked = unfinished.iter().all(|t| matches!(self.threads[*t], TState::Parked(..)));
            if !unfinished.is_empty() && all_parked {
                let mut waiting = Vec::new();
                let mut classes = Vec::new();
                let mut culprits: Vec<String> = Vec::new();
                for t in unfinished {
                    if let TState::Parked(_, cls, kind, site) = &self.threads[t] {
                        let held = self.held_by(t);
                        // name the held lock that ranks after the wanted one in the documented order
                        let mut culprit = false;
                        for h in held.iter() {
                            let (hc, hs) = h.split_once('@').unwrap_or((h.as_str(), ""));
                            if let (Some(a), Some(b)) = (crate::locks::rank(hc), crate::locks::rank(cls)) {
                                if a > b {
                                    culprits.push(format!("{}@{}", hc, hs.rsplit_once(':').map(|x| x.0).unwrap_or(hs)));
                                    culprit = true;
                                }
                            }
                        }
                        let _ = culprit;
                        waiting.push((t, cls.clone(), *kind, site.clone(), held));
                        classes.push(cls.clone());
                    }
                }
                classes.sort();
                classes.dedup();
                culprits.sort();
                culprits.dedup();
                if culprits.is_empty() {
                    culprits = waiting.iter().map(|w: &(usize, String, Kind, String, Vec<String>)| format!("{}@{}", w.1, w.3.rsplit_once(':').map(|x| x.0).unwrap_or(&w.3))).collect();
                    culprits.sort();
                }
                self.deadlock = Some(Deadlock { waiting, signature_classes: classes, culprits });
                self.aborted = true;
            }
            return;
        }
        let pick = if cands.len() == 1 {
            cands[0]
        } else {
            self.decisions_with_choice += 1;
            let p = match &self.script {
                Some(s) => {
                    let want = s.get(self.script_pos).cloned();
                    self.script_pos += 1;
                    match want {
                        Some(w) if cands.contains(&w) => w,
                        Some(w) => {
                            self.divergence = Some(format!("replay schedule wants thread {} at decision {}, candidates are {:?}", w, self.script_pos - 1, cands));
                            self.aborted = true;
                            return;
                        }
                        None => cands[0],
                    }
                }
                None => cands[self.rng.below(cands.len() as u64) as usize],
            };
            self.choices.push(p);
            p
        };
        self.grants += 1;
        self.threads[pick] = TState::Running;
        self.running = Some(pick);
    }
}

impl Baton {
    pub fn new(threads: usize, seed: u64, script: Option<Vec<usize>>) -> Arc<Baton> {
        Arc::new(Baton {
            state: Mutex::new(State {
                rng: Rng::new(seed),
                threads: vec![TState::NotStarted; threads],
                locks: BTreeMap::new(),
                id_of: BTreeMap::new(),
                next_id: 0,
                running: None,
                choices: Vec::new(),
                script,
                script_pos: 0,
                grants: 0,
                aborted: false,
                deadlock: None,
                divergence: None,
                decisions_with_choice: 0,
            }),
            cv: Condvar::new(),
        })
    }

    fn wait_for_baton(&self, t: usize, mut st: std::sync::MutexGuard<'_, State>) {
        loop {
            if st.aborted {
                drop(st);
                if std::thread::panicking() {
                    return;
                }
                std::panic::resume_unwind(Box::new(Abort));
            }
            if st.running == Some(t) {
                return;
            }
            st = self.cv.wait(st).unwrap();
        }
    }

    /// Called first thing by a simulated thread.
    pub fn enter(&self, t: usize) {
        TID.with(|c| c.set(Some(t)));
        let mut st = self.state.lock().unwrap();
        st.threads[t] = TState::ParkedStart;
        // the scheduler starts once every thread has entered
        if st.threads.iter().all(|s| !matches!(s, TState::NotStarted)) {
            st.schedule();
            self.cv.notify_all();
        }
        self.wait_for_baton(t, st);
    }

    /// Called last thing by a simulated thread (also when it unwinds).
    pub fn finish(&self, t: usize) {
        TID.with(|c| c.set(None));
        let mut st = self.state.lock().unwrap();
        st.threads[t] = TState::Finished;
        if st.running == Some(t) {
            st.running = None;
        }
        // drop whatever the model thinks the thread still holds (unwinding released it)
        for l in st.locks.values_mut() {
            if l.writer == Some(t) {
                l.writer = None;
            }
            l.readers.retain(|r| *r != t);
        }
        st.schedule();
        self.cv.notify_all();
    }

    /// Wait (real time) until every thread finished or the run was aborted.
    pub fn wait_all(&self, limit: std::time::Duration) -> bool {
        let start = std::time::Instant::now();
        let mut st = self.state.lock().unwrap();
        loop {
            if st.threads.iter().all(|s| matches!(s, TState::Finished)) {
                return true;
            }
            if start.elapsed() > limit {
                st.aborted = true;
                self.cv.notify_all();
                return false;
            }
            let (g, _) = self.cv.wait_timeout(st, std::time::Duration::from_millis(50)).unwrap();
            st = g;
        }
    }
}

fn site(ev: &LockEvent) -> String {
    let f = ev.site.file();
    let f = f.rsplit("lib/src/").next().unwrap_or(f);
    format!("{}:{}", f, ev.site.line())
}

impl Observer for Baton {
    fn before_acquire(&self, ev: &LockEvent) {
        let Some(t) = TID.with(|c| c.get()) else { return };
        let mut st = self.state.lock().unwrap();
        if st.aborted {
            drop(st);
            if std::thread::panicking() {
                // a destructor takes a lock while this thread already unwinds: let it through
                return;
            }
            std::panic::resume_unwind(Box::new(Abort));
        }
        let inst = st.id(ev.addr);
        st.threads[t] = TState::Parked(inst, crate::locks::class_name(ev.class), ev.kind, site(ev));
        if st.running == Some(t) {
            st.running = None;
        }
        st.schedule();
        self.cv.notify_all();
        self.wait_for_baton(t, st);
    }
    fn acquired(&self, ev: &LockEvent) {
        let Some(t) = TID.with(|c| c.get()) else { return };
        let mut st = self.state.lock().unwrap();
        let inst = st.id(ev.addr);
        let cls = crate::locks::class_name(ev.class);
        let l = st.locks.entry(inst).or_default();
        l.class = cls;
        l.sites.push((t, site(ev)));
        match ev.kind {
            Kind::Read => l.readers.push(t),
            _ => l.writer = Some(t),
        }
    }
    fn released(&self, ev: &LockEvent) {
        let Some(t) = TID.with(|c| c.get()) else { return };
        let mut st = self.state.lock().unwrap();
        let inst = st.id(ev.addr);
        if let Some(l) = st.locks.get_mut(&inst) {
            if let Some(p) = l.sites.iter().rposition(|s| s.0 == t) {
                l.sites.remove(p);
            }
            match ev.kind {
                Kind::Read => {
                    if let Some(p) = l.readers.iter().position(|r| *r == t) {
                        l.readers.remove(p);
                    }
                }
                _ => {
                    if l.writer == Some(t) {
                        l.writer = None;
                    }
                }
            }
        }
    }
    fn destroyed(&self, addr: usize) {
        let mut st = self.state.lock().unwrap();
        if let Some(i) = st.id_of.remove(&addr) {
            st.locks.remove(&i);
        }
    }
}
