//! Per-run observation context: journal, counters (faults fired, probes), shape hash, virtual
//! time accounting and recorded violations.

use crate::rng::{fnv1a, fnv_mix};
use serde_json::{json, Value};
use std::collections::BTreeMap;

#[derive(Clone, Debug, serde_derive::Serialize, serde_derive::Deserialize)]
pub struct Violation {
    pub property: String,
    pub clause: String,
    /// `P/clause/discriminator` - the smallest stable description of what fails.
    pub signature: String,
    pub message: String,
    pub step: i64,
}

pub struct Ctx {
    pub seed: u64,
    pub run: u64,
    pub keep_journal: bool,
    pub journal: Vec<String>,
    pub journal_hash: u64,
    pub shape_hash: u64,
    pub steps: u64,
    pub vtime_us: u64,
    pub nontrivial: bool,
    pub counters: BTreeMap<String, u64>,
    pub violations: Vec<Violation>,
    pub step_index: i64,
}

impl Ctx {
    pub fn new(seed: u64, run: u64, keep_journal: bool) -> Ctx {
        Ctx {
            seed,
            run,
            keep_journal,
            journal: Vec::new(),
            journal_hash: fnv1a(b"journal"),
            shape_hash: fnv1a(b"shape"),
            steps: 0,
            vtime_us: 0,
            nontrivial: false,
            counters: BTreeMap::new(),
            violations: Vec::new(),
            step_index: -1,
        }
    }

    /// Begin plan step `i` (used for violation attribution).
    pub fn step(&mut self, i: usize) {
        self.step_index = i as i64;
        self.steps += 1;
    }

    /// Append a journal record. `shape` is the abstracted (actor, op, outcome class) token that
    /// feeds the shape hash; `detail` is the canonicalised observable result.
    pub fn log(&mut self, shape: &str, detail: &str) {
        self.shape_hash = fnv_mix(self.shape_hash, shape.as_bytes());
        self.shape_hash = fnv_mix(self.shape_hash, b"|");
        self.journal_hash = fnv_mix(self.journal_hash, shape.as_bytes());
        self.journal_hash = fnv_mix(self.journal_hash, b":");
        self.journal_hash = fnv_mix(self.journal_hash, detail.as_bytes());
        self.journal_hash = fnv_mix(self.journal_hash, b"\n");
        if self.keep_journal {
            self.journal.push(format!(
                "{{\"step\":{},\"t_us\":{},\"ev\":{},\"obs\":{},\"h\":\"{:016x}\"}}",
                self.step_index,
                self.vtime_us,
                Value::String(shape.to_string()),
                Value::String(detail.to_string()),
                self.journal_hash
            ));
        }
    }

    pub fn count(&mut self, name: &str) {
        self.add(name, 1);
    }

    pub fn add(&mut self, name: &str, n: u64) {
        if let Some(c) = self.counters.get_mut(name) {
            *c += n;
        } else {
            self.counters.insert(name.to_string(), n);
        }
    }

    /// A fault fired (not merely configured).
    pub fn fault(&mut self, kind: &str) {
        self.nontrivial = true;
        let k = format!("fault.{}", kind);
        self.count(&k);
    }

    /// A probe: "this rare condition was hit".
    pub fn probe(&mut self, name: &str) {
        let k = format!("probe.{}", name);
        self.count(&k);
    }

    pub fn advance(&mut self, us: u64) {
        self.vtime_us = self.vtime_us.saturating_add(us);
    }

    pub fn violate(&mut self, property: &str, clause: &str, discriminator: &str, message: String) {
        let signature = if discriminator.is_empty() {
            format!("{}/{}", property, clause)
        } else {
            format!("{}/{}/{}", property, clause, discriminator)
        };
        self.log("VIOLATION", &signature);
        self.violations.push(Violation {
            property: property.to_string(),
            clause: clause.to_string(),
            signature,
            message,
            step: self.step_index,
        });
    }

    pub fn summary(&self) -> Value {
        json!({
            "run": self.run,
            "jh": format!("{:016x}", self.journal_hash),
            "sh": format!("{:016x}", self.shape_hash),
            "nt": self.nontrivial,
            "vt": self.vtime_us,
            "st": self.steps,
        })
    }
}
