//! Wire-level building blocks shared by the scenarios: key/cert fixtures, secure-channel pairs,
//! message generators.

use opcua::core::comms::secure_channel::{Role, SecureChannel};
use opcua::crypto::{CertificateStore, PrivateKey, SecurityPolicy, X509};
use opcua::sync::RwLock;
use opcua::types::*;
use std::collections::HashMap;
use std::sync::{Arc, Mutex, OnceLock};

use crate::rng::Rng;

pub const POLICIES: [SecurityPolicy; 6] = [
    SecurityPolicy::None,
    SecurityPolicy::Basic128Rsa15,
    SecurityPolicy::Basic256,
    SecurityPolicy::Basic256Sha256,
    SecurityPolicy::Aes128Sha256RsaOaep,
    SecurityPolicy::Aes256Sha256RsaPss,
];

pub fn policy_name(p: SecurityPolicy) -> &'static str {
    p.to_str()
}

pub fn policy_by_name(s: &str) -> SecurityPolicy {
    for p in POLICIES.iter() {
        if p.to_str() == s {
            return *p;
        }
    }
    SecurityPolicy::None
}

pub fn mode_by_name(s: &str) -> MessageSecurityMode {
    match s {
        "Sign" => MessageSecurityMode::Sign,
        "SignAndEncrypt" => MessageSecurityMode::SignAndEncrypt,
        _ => MessageSecurityMode::None,
    }
}

pub fn mode_name(m: MessageSecurityMode) -> &'static str {
    match m {
        MessageSecurityMode::Sign => "Sign",
        MessageSecurityMode::SignAndEncrypt => "SignAndEncrypt",
        _ => "None",
    }
}

pub struct Identity {
    pub cert: X509,
    pub pem: Vec<u8>,
    pub bits: u32,
    pub name: String,
}

impl Identity {
    pub fn key(&self) -> PrivateKey {
        PrivateKey::from_pem(&self.pem).expect("fixture key")
    }
}

fn fixtures_dir() -> String {
    std::env::var("VERIF_FIXTURES").unwrap_or_else(|_| format!("{}/sim/fixtures", crate::framework::verif_root()))
}

/// Build a self-signed certificate with fixed validity and serial so that its bytes are a pure
/// function of the inputs.
pub fn make_cert(
    pem: &[u8],
    common_name: &str,
    application_uri: &str,
    hosts: &[&str],
    not_before_unix: i64,
    not_after_unix: i64,
    serial: u32,
) -> X509 {
    use openssl::asn1::Asn1Time;
    use openssl::bn::BigNum;
    use openssl::hash::MessageDigest;
    use openssl::pkey::PKey;
    use openssl::x509::extension::{ExtendedKeyUsage, KeyUsage, SubjectAlternativeName};
    use openssl::x509::{X509Builder, X509NameBuilder};
    let pkey = PKey::private_key_from_pem(pem).expect("pem");
    let mut builder = X509Builder::new().unwrap();
    builder.set_version(2).unwrap();
    let mut name = X509NameBuilder::new().unwrap();
    name.append_entry_by_text("CN", common_name).unwrap();
    name.append_entry_by_text("O", "verif").unwrap();
    name.append_entry_by_text("OU", "sim").unwrap();
    name.append_entry_by_text("C", "IE").unwrap();
    name.append_entry_by_text("ST", "Dublin").unwrap();
    let name = name.build();
    builder.set_subject_name(&name).unwrap();
    builder.set_issuer_name(&name).unwrap();
    let ku = KeyUsage::new()
        .digital_signature()
        .non_repudiation()
        .key_encipherment()
        .data_encipherment()
        .key_cert_sign()
        .build()
        .unwrap();
    builder.append_extension(ku).unwrap();
    let eku = ExtendedKeyUsage::new().client_auth().server_auth().build().unwrap();
    builder.append_extension(eku).unwrap();
    builder.set_not_before(&Asn1Time::from_unix(not_before_unix).unwrap()).unwrap();
    builder.set_not_after(&Asn1Time::from_unix(not_after_unix).unwrap()).unwrap();
    builder.set_pubkey(&pkey).unwrap();
    let serial = BigNum::from_u32(serial).unwrap().to_asn1_integer().unwrap();
    builder.set_serial_number(&serial).unwrap();
    let mut san = SubjectAlternativeName::new();
    if !application_uri.is_empty() {
        san.uri(application_uri);
    }
    for h in hosts {
        if h.parse::<std::net::Ipv4Addr>().is_ok() || h.parse::<std::net::Ipv6Addr>().is_ok() {
            san.ip(h);
        } else {
            san.dns(h);
        }
    }
    if !application_uri.is_empty() || !hosts.is_empty() {
        let ext = san.build(&builder.x509v3_context(None, None)).unwrap();
        builder.append_extension(ext).unwrap();
    }
    builder.sign(&pkey, MessageDigest::sha256()).unwrap();
    X509::from(builder.build())
}

/// 2026-01-01T00:00:00Z
pub const CERT_NOT_BEFORE: i64 = 1_767_225_600;
/// 2036-01-01T00:00:00Z
pub const CERT_NOT_AFTER: i64 = 2_082_758_400;

static IDS: OnceLock<Mutex<HashMap<String, Arc<Identity>>>> = OnceLock::new();

/// Identity `name` in {a (client), b (server), c (foreign)} with an RSA key of `bits` bits.
pub fn identity(bits: u32, name: &str) -> Arc<Identity> {
    let m = IDS.get_or_init(|| Mutex::new(HashMap::new()));
    let key = format!("rsa{}_{}", bits, name);
    let mut g = m.lock().unwrap();
    if let Some(i) = g.get(&key) {
        return i.clone();
    }
    let pem = std::fs::read(format!("{}/{}.pem", fixtures_dir(), key)).unwrap_or_else(|e| panic!("fixture {}: {}", key, e));
    let cert = make_cert(
        &pem,
        &format!("sim-{}", name),
        &format!("urn:sim:{}", name),
        &["localhost", "127.0.0.1"],
        CERT_NOT_BEFORE,
        CERT_NOT_AFTER,
        1000 + bits + name.as_bytes()[0] as u32,
    );
    let id = Arc::new(Identity {
        cert,
        pem,
        bits,
        name: name.to_string(),
    });
    g.insert(key, id.clone());
    id
}

pub fn empty_store() -> Arc<RwLock<CertificateStore>> {
    Arc::new(RwLock::new(CertificateStore::new(std::path::Path::new("/nonexistent/verif-pki"))))
}

pub fn bare_channel(role: Role, opts: DecodingOptions) -> SecureChannel {
    SecureChannel::new(empty_store(), role, opts)
}

pub struct Pair {
    pub client: SecureChannel,
    pub server: SecureChannel,
}

/// A client and a server `SecureChannel` as they are after an OpenSecureChannel exchange: policy,
/// mode, certificates, nonces, derived keys, channel and token ids.
pub fn channel_pair(
    policy: SecurityPolicy,
    mode: MessageSecurityMode,
    bits: u32,
    nonce_seed: u64,
    channel_id: u32,
    token_id: u32,
) -> Pair {
    let opts = DecodingOptions::default();
    let mut client = bare_channel(Role::Client, opts.clone());
    let mut server = bare_channel(Role::Server, opts);
    for c in [&mut client, &mut server] {
        c.set_security_policy(policy);
        c.set_security_mode(mode);
        c.set_secure_channel_id(channel_id);
        c.set_token_id(token_id);
    }
    if policy != SecurityPolicy::None {
        let a = identity(bits, "a");
        let b = identity(bits, "b");
        client.set_cert(Some(a.cert.clone()));
        client.set_private_key(Some(a.key()));
        client.set_remote_cert(Some(b.cert.clone()));
        server.set_cert(Some(b.cert.clone()));
        server.set_private_key(Some(b.key()));
        server.set_remote_cert(Some(a.cert.clone()));
        let n = policy.secure_channel_nonce_length();
        let mut r = Rng::derive(nonce_seed, "nonce", channel_id as u64, token_id as u64);
        let cn = r.bytes(n);
        let sn = r.bytes(n);
        client.set_local_nonce(&cn);
        client.set_remote_nonce(&sn);
        server.set_local_nonce(&sn);
        server.set_remote_nonce(&cn);
        client.derive_keys();
        server.derive_keys();
    }
    Pair { client, server }
}

/// Install fresh nonces / keys for a new token on an existing pair (what a renew does).
pub fn rekey_pair(pair: &mut Pair, nonce_seed: u64, token_id: u32) {
    let policy = pair.client.security_policy();
    pair.client.set_token_id(token_id);
    pair.server.set_token_id(token_id);
    if policy != SecurityPolicy::None {
        let n = policy.secure_channel_nonce_length();
        let mut r = Rng::derive(nonce_seed, "nonce", pair.client.secure_channel_id() as u64, token_id as u64);
        let cn = r.bytes(n);
        let sn = r.bytes(n);
        pair.client.set_local_nonce(&cn);
        pair.client.set_remote_nonce(&sn);
        pair.server.set_local_nonce(&sn);
        pair.server.set_remote_nonce(&cn);
        pair.client.derive_keys();
        pair.server.derive_keys();
    }
}

// ------------------------------------------------------------------------------------------
// Message generators

pub fn request_header(handle: u32) -> RequestHeader {
    RequestHeader {
        authentication_token: NodeId::null(),
        timestamp: DateTime::from(crate::hooks::utc_now()),
        request_handle: handle,
        return_diagnostics: DiagnosticBits::empty(),
        audit_entry_id: UAString::null(),
        timeout_hint: 0,
        additional_header: ExtensionObject::null(),
    }
}

/// A ReadRequest whose encoded size is roughly `target` bytes (each ReadValueId with a string
/// node id of controlled length).
pub fn sized_read_request(handle: u32, target: usize, rng: &mut Rng) -> ReadRequest {
    let mut nodes = Vec::new();
    let mut size = 60usize;
    let mut i = 0u32;
    while size < target {
        let remaining = target - size;
        let slen = remaining.min(1500).saturating_sub(22).max(1);
        let mut s = String::with_capacity(slen);
        for _ in 0..slen {
            s.push((b'a' + rng.below(26) as u8) as char);
        }
        let rv = ReadValueId {
            node_id: NodeId::new(2, s),
            attribute_id: 13,
            index_range: UAString::null(),
            data_encoding: QualifiedName::null(),
        };
        use opcua::types::BinaryEncoder;
        size += rv.byte_len();
        nodes.push(rv);
        i += 1;
        if i > 100_000 {
            break;
        }
    }
    ReadRequest {
        request_header: request_header(handle),
        max_age: 0.0,
        timestamps_to_return: TimestampsToReturn::Both,
        nodes_to_read: Some(nodes),
    }
}

pub fn hex(b: &[u8]) -> String {
    let mut s = String::with_capacity(b.len() * 2);
    for x in b {
        s.push_str(&format!("{:02x}", x));
    }
    s
}

pub fn unhex(s: &str) -> Vec<u8> {
    let b = s.as_bytes();
    let mut v = Vec::with_capacity(b.len() / 2);
    let mut i = 0;
    while i + 1 < b.len() {
        let h = (b[i] as char).to_digit(16).unwrap_or(0) as u8;
        let l = (b[i + 1] as char).to_digit(16).unwrap_or(0) as u8;
        v.push(h << 4 | l);
        i += 2;
    }
    v
}
