//! Scenario trait, supervisor / worker processes, minimiser, replay, known-findings filter and
//! evidence writer.

use crate::ctx::{Ctx, Violation};
use crate::panics;
use serde_json::{json, Map, Value};
use std::collections::{BTreeMap, BTreeSet};
use std::io::{BufRead, BufReader, Write};
use std::process::{Command, Stdio};
use std::sync::mpsc;
use std::time::{Duration, Instant};

#[derive(Clone, Copy, Debug, PartialEq, Eq)]
pub enum Tier {
    Quick,
    Thorough,
}

impl Tier {
    pub fn parse(s: &str) -> Tier {
        if s == "thorough" {
            Tier::Thorough
        } else {
            Tier::Quick
        }
    }
    pub fn name(&self) -> &'static str {
        match self {
            Tier::Quick => "quick",
            Tier::Thorough => "thorough",
        }
    }
}

pub struct Info {
    pub level: &'static str,
    pub exhaustive: bool,
    pub layer: &'static str,
    pub rule: &'static str,
    pub real: Vec<&'static str>,
    pub stubbed: Vec<&'static str>,
    pub assumptions: Vec<&'static str>,
    pub fault_kinds: Vec<&'static str>,
}

pub trait Scenario: Sync + Send {
    fn id(&self) -> &'static str;
    fn info(&self) -> Info;
    fn runs(&self, tier: Tier) -> u64;
    /// Produce the plan for run `run`. Must be a pure function of (seed, run, tier).
    fn gen(&self, seed: u64, run: u64, tier: Tier) -> Value;
    /// Execute a plan against the real code; record journal, counters and violations in `ctx`.
    /// Must be a pure function of the plan (and the code under test).
    fn exec(&self, plan: &Value, ctx: &mut Ctx);
    /// Candidate simplifications beyond dropping elements of `plan.steps`.
    fn simplify(&self, _plan: &Value) -> Vec<Value> {
        Vec::new()
    }
    /// Which property a panic inside the code under test is attributed to.
    fn panic_property(&self) -> &'static str {
        self.id()
    }
    /// Wall-clock watchdog per run (seconds).
    fn watchdog_s(&self) -> u64 {
        60
    }
}

pub fn run_seed(seed: u64, id: &str, run: u64) -> u64 {
    let mut h = crate::rng::fnv1a(id.as_bytes());
    h = crate::rng::fnv_mix(h, &seed.to_le_bytes());
    h = crate::rng::fnv_mix(h, &run.to_le_bytes());
    h
}

/// Execute one plan with panic capture. Returns Err for a harness panic.
pub fn run_plan(scn: &dyn Scenario, plan: &Value, ctx: &mut Ctx) -> Result<(), String> {
    crate::hooks::reset_for_run(ctx.seed ^ ctx.run.wrapping_mul(0x9E37_79B9_7F4A_7C15));
    let r = panics::catch(|| scn.exec(plan, ctx));
    crate::hooks::clear_after_run();
    match r {
        Ok(()) => {
            // a panic inside a spawned task is swallowed by the runtime; the hook still saw it
            if let Some(c) = panics::take_last() {
                if panics::in_real_code(&c) {
                    let p = scn.panic_property();
                    ctx.violate(p, "panic", &c.discriminator(), format!("{} (inside a server/client task)", c.describe()));
                } else {
                    return Err(c.describe());
                }
            }
            Ok(())
        }
        Err(c) => {
            if panics::in_real_code(&c) {
                let p = scn.panic_property();
                ctx.violate(p, "panic", &c.discriminator(), c.describe());
                Ok(())
            } else {
                Err(c.describe())
            }
        }
    }
}

// ------------------------------------------------------------------------------------------
// Worker

pub fn worker_main(scn: &dyn Scenario, tier: Tier, seed: u64, start: u64, stride: u64, total: u64) -> i32 {
    let out = std::io::stdout();
    let mut out = out.lock();
    let mut counters: BTreeMap<String, u64> = BTreeMap::new();
    let mut i = start;
    let mut samples_emitted = 0;
    while i < total {
        let _ = writeln!(out, "B {}", i);
        let _ = out.flush();
        let plan = scn.gen(seed, i, tier);
        let mut ctx = Ctx::new(seed, i, false);
        if let Err(e) = run_plan(scn, &plan, &mut ctx) {
            let _ = writeln!(out, "H {}", json!({"run": i, "error": e}));
            let _ = out.flush();
            return 2;
        }
        for (k, v) in ctx.counters.iter() {
            *counters.entry(k.clone()).or_insert(0) += *v;
        }
        for v in ctx.violations.iter() {
            let _ = writeln!(out, "V {}", json!({"run": i, "v": v}));
        }
        let _ = writeln!(out, "E {}", ctx.summary());
        if samples_emitted < 1 && (i == start) && start < 3 {
            let _ = writeln!(out, "S {}", json!({"run": i, "plan": plan}));
            samples_emitted += 1;
        }
        i += stride;
    }
    let _ = writeln!(out, "C {}", json!(counters));
    let _ = out.flush();
    0
}

// ------------------------------------------------------------------------------------------
// Supervisor

#[derive(Default)]
pub struct Aggregate {
    pub evaluations: u64,
    pub shapes: BTreeSet<String>,
    pub all_shapes: BTreeSet<String>,
    pub counters: BTreeMap<String, u64>,
    pub violations: Vec<(u64, Violation)>,
    pub samples: Vec<Value>,
    pub vtime_us: u64,
    pub steps: u64,
    pub hashes: BTreeMap<u64, String>,
    pub harness_errors: Vec<String>,
    pub longest: (u64, u64),
    pub stopped_early: bool,
}

enum Msg {
    Line(usize, String),
    Eof(usize),
}

struct WorkerState {
    child: std::process::Child,
    current: Option<u64>,
    last_progress: Instant,
    done: bool,
    finished_clean: bool,
    stride: u64,
}

fn spawn_worker(
    id: &str,
    tier: Tier,
    seed: u64,
    start: u64,
    stride: u64,
    total: u64,
    idx: usize,
    tx: &mpsc::Sender<Msg>,
) -> WorkerState {
    let exe = std::env::current_exe().expect("current_exe");
    let mut child = Command::new(exe)
        .arg("worker")
        .arg(id)
        .arg(tier.name())
        .arg(seed.to_string())
        .arg(start.to_string())
        .arg(stride.to_string())
        .arg(total.to_string())
        .stdin(Stdio::null())
        .stdout(Stdio::piped())
        .stderr(Stdio::null())
        .spawn()
        .expect("spawn worker");
    let stdout = child.stdout.take().unwrap();
    let tx = tx.clone();
    std::thread::spawn(move || {
        let r = BufReader::new(stdout);
        for line in r.lines() {
            match line {
                Ok(l) => {
                    if tx.send(Msg::Line(idx, l)).is_err() {
                        return;
                    }
                }
                Err(_) => break,
            }
        }
        let _ = tx.send(Msg::Eof(idx));
    });
    WorkerState {
        child,
        current: None,
        last_progress: Instant::now(),
        done: false,
        finished_clean: false,
        stride,
    }
}

pub fn n_workers() -> u64 {
    std::env::var("VERIF_WORKERS")
        .ok()
        .and_then(|s| s.parse().ok())
        .unwrap_or_else(|| {
            std::thread::available_parallelism()
                .map(|n| n.get() as u64)
                .unwrap_or(8)
                .min(16)
        })
}

pub fn run_batch(scn: &dyn Scenario, tier: Tier, seed: u64, total: u64, workers: u64) -> Aggregate {
    let id = scn.id();
    let mut agg = Aggregate::default();
    let workers = workers.min(total).max(1);
    let (tx, rx) = mpsc::channel::<Msg>();
    let mut ws: Vec<WorkerState> = Vec::new();
    for w in 0..workers {
        ws.push(spawn_worker(id, tier, seed, w, workers, total, w as usize, &tx));
    }
    let watchdog = Duration::from_secs(scn.watchdog_s());
    let max_violations: usize = std::env::var("VERIF_MAX_VIOLATIONS").ok().and_then(|s| s.parse().ok()).unwrap_or(48);
    // listed known findings do not count towards the early stop: they are expected in many runs
    let known = load_known();
    let mut counted = 0usize;
    let mut unknown = 0usize;
    loop {
        if ws.iter().all(|w| w.done) {
            break;
        }
        while counted < agg.violations.len() {
            let v = &agg.violations[counted].1;
            // only this check's own, unlisted violations decide the verdict and the early stop
            if v.property == id && known.lookup(&v.property, &v.signature).is_none() {
                unknown += 1;
            }
            counted += 1;
        }
        if unknown >= max_violations {
            // enough evidence that the property is violated: stop the batch early (the verdict is
            // already exit 1; exploring the rest of a broken tree only costs time)
            for w in ws.iter_mut() {
                if !w.done {
                    let _ = w.child.kill();
                    let _ = w.child.wait();
                    w.done = true;
                }
            }
            agg.stopped_early = true;
            break;
        }
        match rx.recv_timeout(Duration::from_millis(500)) {
            Ok(Msg::Line(idx, line)) => {
                let w = &mut ws[idx];
                w.last_progress = Instant::now();
                let (tag, rest) = line.split_at(line.len().min(2));
                match tag {
                    "B " => {
                        w.current = rest.trim().parse().ok();
                    }
                    "E " => {
                        if let Ok(v) = serde_json::from_str::<Value>(rest) {
                            agg.evaluations += 1;
                            let sh = v["sh"].as_str().unwrap_or("").to_string();
                            if v["nt"].as_bool().unwrap_or(false) {
                                agg.shapes.insert(sh.clone());
                            }
                            agg.all_shapes.insert(sh);
                            agg.vtime_us += v["vt"].as_u64().unwrap_or(0);
                            let st = v["st"].as_u64().unwrap_or(0);
                            agg.steps += st;
                            let run = v["run"].as_u64().unwrap_or(0);
                            if st > agg.longest.1 {
                                agg.longest = (run, st);
                            }
                            agg.hashes
                                .insert(run, v["jh"].as_str().unwrap_or("").to_string());
                            w.current = None;
                        }
                    }
                    "V " => {
                        if let Ok(v) = serde_json::from_str::<Value>(rest) {
                            let run = v["run"].as_u64().unwrap_or(0);
                            if let Ok(viol) = serde_json::from_value::<Violation>(v["v"].clone()) {
                                agg.violations.push((run, viol));
                            }
                        }
                    }
                    "S " => {
                        if let Ok(v) = serde_json::from_str::<Value>(rest) {
                            if agg.samples.len() < 3 {
                                agg.samples.push(v);
                            }
                        }
                    }
                    "C " => {
                        if let Ok(Value::Object(m)) = serde_json::from_str::<Value>(rest) {
                            for (k, v) in m {
                                *agg.counters.entry(k).or_insert(0) += v.as_u64().unwrap_or(0);
                            }
                        }
                        w.finished_clean = true;
                    }
                    "H " => {
                        agg.harness_errors.push(rest.to_string());
                    }
                    _ => {}
                }
            }
            Ok(Msg::Eof(idx)) => {
                let status = ws[idx].child.wait().ok();
                if ws[idx].finished_clean || ws[idx].current.is_none() && status.map(|s| s.success()).unwrap_or(false) {
                    ws[idx].done = true;
                    continue;
                }
                // Worker died in the middle of a run.
                let stride = ws[idx].stride;
                if let Some(run) = ws[idx].current {
                    let sig = status
                        .and_then(|s| {
                            use std::os::unix::process::ExitStatusExt;
                            s.signal()
                        })
                        .map(|s| format!("signal{}", s))
                        .unwrap_or_else(|| format!("exit{}", status.and_then(|s| s.code()).unwrap_or(-1)));
                    if status.and_then(|s| s.code()) == Some(2) {
                        // harness error already reported via H line
                        ws[idx].done = true;
                        continue;
                    }
                    let p = scn.panic_property();
                    agg.evaluations += 1;
                    agg.violations.push((
                        run,
                        Violation {
                            property: p.to_string(),
                            clause: "crash".to_string(),
                            signature: format!("{}/crash/{}", p, sig),
                            message: format!("worker process died ({}) while executing run {}", sig, run),
                            step: -1,
                        },
                    ));
                    // restart after the crashed run
                    let next = run + stride;
                    if next < total {
                        ws[idx] = spawn_worker(id, tier, seed, next, stride, total, idx, &tx);
                    } else {
                        ws[idx].done = true;
                    }
                } else {
                    agg.harness_errors
                        .push(format!("worker {} exited abnormally outside a run: {:?}", idx, status));
                    ws[idx].done = true;
                }
            }
            Err(mpsc::RecvTimeoutError::Timeout) => {}
            Err(mpsc::RecvTimeoutError::Disconnected) => break,
        }
        // watchdog
        for idx in 0..ws.len() {
            if !ws[idx].done && ws[idx].current.is_some() && ws[idx].last_progress.elapsed() > watchdog {
                let run = ws[idx].current.unwrap();
                let _ = ws[idx].child.kill();
                let _ = ws[idx].child.wait();
                let p = scn.panic_property();
                agg.evaluations += 1;
                agg.violations.push((
                    run,
                    Violation {
                        property: p.to_string(),
                        clause: "non-termination".to_string(),
                        signature: format!("{}/non-termination", p),
                        message: format!("run {} exceeded the {} s wall-clock watchdog", run, scn.watchdog_s()),
                        step: -1,
                    },
                ));
                let stride = ws[idx].stride;
                let next = run + stride;
                // mark finished_clean false; the Eof of the killed worker must be ignored:
                ws[idx].current = None;
                ws[idx].finished_clean = true;
                if next < total {
                    // spawn replacement under a fresh index
                    let nidx = ws.len();
                    ws.push(spawn_worker(id, tier, seed, next, stride, total, nidx, &tx));
                }
            }
        }
    }
    agg
}

// ------------------------------------------------------------------------------------------
// Known findings

pub struct Known {
    pub findings: Vec<(String, String, String)>, // property, signature, text
}

pub fn verif_root() -> String {
    std::env::var("VERIF_ROOT").unwrap_or_else(|_| "/verif".to_string())
}

pub fn load_known() -> Known {
    let mut k = Known { findings: Vec::new() };
    let path = format!("{}/known_findings.txt", verif_root());
    if let Ok(s) = std::fs::read_to_string(path) {
        for line in s.lines() {
            let line = line.trim();
            if let Some(rest) = line.strip_prefix("finding:") {
                let (head, text) = match rest.find("::") {
                    Some(p) => (&rest[..p], rest[p + 2..].trim()),
                    None => (rest, ""),
                };
                let mut prop = String::new();
                let mut sig = String::new();
                for tok in head.split_whitespace() {
                    if let Some(v) = tok.strip_prefix("property=") {
                        prop = v.to_string();
                    } else if let Some(v) = tok.strip_prefix("signature=") {
                        sig = v.to_string();
                    }
                }
                if !prop.is_empty() && !sig.is_empty() {
                    k.findings.push((prop, sig, text.to_string()));
                }
            }
        }
    }
    k
}

impl Known {
    pub fn lookup(&self, property: &str, signature: &str) -> Option<&str> {
        self.findings
            .iter()
            .find(|(p, s, _)| p == property && s == signature)
            .map(|(_, _, t)| t.as_str())
    }
}

// ------------------------------------------------------------------------------------------
// Plan evaluation (in-process, or in a child process when a crash is expected)

pub struct EvalResult {
    pub violations: Vec<Violation>,
    pub journal: Vec<String>,
    pub journal_hash: u64,
    pub harness_error: Option<String>,
}

pub fn eval_in_process(scn: &dyn Scenario, plan: &Value, seed: u64, run: u64, keep: bool) -> EvalResult {
    let mut ctx = Ctx::new(seed, run, keep);
    let r = run_plan(scn, plan, &mut ctx);
    EvalResult {
        violations: ctx.violations,
        journal: ctx.journal,
        journal_hash: ctx.journal_hash,
        harness_error: r.err(),
    }
}

pub fn eval_in_child(scn: &dyn Scenario, plan: &Value, seed: u64, run: u64) -> EvalResult {
    let dir = format!("{}/work", verif_root());
    let _ = std::fs::create_dir_all(&dir);
    let path = format!("{}/plan-{}-{}.json", dir, std::process::id(), run);
    let _ = std::fs::write(&path, serde_json::to_vec(&json!({"property": scn.id(), "seed": seed, "run": run, "plan": plan})).unwrap());
    let exe = std::env::current_exe().expect("current_exe");
    let mut child = Command::new(exe)
        .arg("exec-plan")
        .arg(&path)
        .stdin(Stdio::null())
        .stdout(Stdio::piped())
        .stderr(Stdio::null())
        .spawn()
        .expect("spawn");
    let start = Instant::now();
    let limit = Duration::from_secs(scn.watchdog_s());
    let mut timed_out = false;
    // The output is read while the child runs: a child that reports many violations or a long journal
    // fills the pipe, and waiting for its exit first would block it until the watchdog fires.
    let reader = child.stdout.take().map(|mut so| {
        std::thread::spawn(move || {
            use std::io::Read;
            let mut out = String::new();
            let _ = so.read_to_string(&mut out);
            out
        })
    });
    let status = loop {
        match child.try_wait() {
            Ok(Some(s)) => break Some(s),
            Ok(None) => {
                if start.elapsed() > limit {
                    let _ = child.kill();
                    let _ = child.wait();
                    timed_out = true;
                    break None;
                }
                std::thread::sleep(Duration::from_millis(5));
            }
            Err(_) => break None,
        }
    };
    let out = reader.and_then(|h| h.join().ok()).unwrap_or_default();
    let _ = std::fs::remove_file(&path);
    let mut res = EvalResult {
        violations: Vec::new(),
        journal: Vec::new(),
        journal_hash: 0,
        harness_error: None,
    };
    for line in out.lines() {
        if let Some(rest) = line.strip_prefix("V ") {
            if let Ok(v) = serde_json::from_str::<Violation>(rest) {
                res.violations.push(v);
            }
        } else if let Some(rest) = line.strip_prefix("J ") {
            res.journal.push(rest.to_string());
        } else if let Some(rest) = line.strip_prefix("JH ") {
            res.journal_hash = u64::from_str_radix(rest.trim(), 16).unwrap_or(0);
        } else if let Some(rest) = line.strip_prefix("H ") {
            res.harness_error = Some(rest.to_string());
        }
    }
    let p = scn.panic_property();
    if timed_out {
        res.violations.push(Violation {
            property: p.to_string(),
            clause: "non-termination".into(),
            signature: format!("{}/non-termination", p),
            message: "exceeded wall-clock watchdog".into(),
            step: -1,
        });
    } else if let Some(s) = status {
        use std::os::unix::process::ExitStatusExt;
        if let Some(sig) = s.signal() {
            res.violations.push(Violation {
                property: p.to_string(),
                clause: "crash".into(),
                signature: format!("{}/crash/signal{}", p, sig),
                message: format!("process died with signal {}", sig),
                step: -1,
            });
        }
    }
    res
}

pub fn exec_plan_main(scn: &dyn Scenario, file: &Value) -> i32 {
    let seed = file["seed"].as_u64().unwrap_or(1);
    let run = file["run"].as_u64().unwrap_or(0);
    let r = eval_in_process(scn, &file["plan"], seed, run, true);
    let out = std::io::stdout();
    let mut out = out.lock();
    for j in r.journal.iter() {
        let _ = writeln!(out, "J {}", j);
    }
    for v in r.violations.iter() {
        let _ = writeln!(out, "V {}", serde_json::to_string(v).unwrap());
    }
    let _ = writeln!(out, "JH {:016x}", r.journal_hash);
    if let Some(e) = r.harness_error {
        let _ = writeln!(out, "H {}", e);
        return 2;
    }
    0
}

fn is_crash_sig(sig: &str) -> bool {
    sig.contains("/crash/") || sig.ends_with("/non-termination")
}

fn reproduces(scn: &dyn Scenario, plan: &Value, seed: u64, run: u64, signature: &str) -> bool {
    // Always in a child process: the code under test may overflow the stack or abort, and that
    // must never take the supervisor down.
    let r = eval_in_child(scn, plan, seed, run);
    r.violations.iter().any(|v| v.signature == signature)
}

/// Delta debugging over `plan.steps` followed by scenario-specific simplifications.
pub fn minimise(scn: &dyn Scenario, plan: &Value, seed: u64, run: u64, signature: &str) -> (Value, u64) {
    let budget_execs = 300u64;
    let budget_time = Duration::from_secs(if is_crash_sig(signature) { 60 } else { 30 });
    let start = Instant::now();
    let mut execs = 0u64;
    let mut best = plan.clone();
    let mut try_plan = |cand: &Value, execs: &mut u64| -> bool {
        if *execs >= budget_execs || start.elapsed() > budget_time {
            return false;
        }
        *execs += 1;
        reproduces(scn, cand, seed, run, signature)
    };
    // ddmin on steps
    if best.get("steps").map(|s| s.is_array()).unwrap_or(false) {
        let mut n = 2usize;
        loop {
            let steps: Vec<Value> = best["steps"].as_array().cloned().unwrap_or_default();
            if steps.len() < 1 {
                break;
            }
            let chunk = (steps.len() + n - 1) / n;
            let mut reduced = false;
            let mut i = 0;
            while i < steps.len() {
                let mut cand_steps = steps.clone();
                let end = (i + chunk).min(steps.len());
                cand_steps.drain(i..end);
                let mut cand = best.clone();
                cand["steps"] = Value::Array(cand_steps);
                if try_plan(&cand, &mut execs) {
                    best = cand;
                    reduced = true;
                    break;
                }
                i += chunk;
            }
            if reduced {
                n = (n.max(3) - 1).max(2);
            } else {
                if chunk <= 1 {
                    break;
                }
                n = (n * 2).min(steps.len());
            }
            if execs >= budget_execs || start.elapsed() > budget_time {
                break;
            }
        }
    }
    // scenario-specific simplification to a fixed point
    loop {
        let mut progressed = false;
        for cand in scn.simplify(&best) {
            if cand == best {
                continue;
            }
            if try_plan(&cand, &mut execs) {
                best = cand;
                progressed = true;
                break;
            }
        }
        if !progressed || execs >= budget_execs || start.elapsed() > budget_time {
            break;
        }
    }
    (best, execs)
}

fn sanitize(s: &str) -> String {
    let t: String = s
        .chars()
        .map(|c| if c.is_ascii_alphanumeric() || c == '-' || c == '_' || c == '.' { c } else { '_' })
        .collect();
    if t.len() > 90 {
        format!("{}_{:08x}", &t[..80], crate::rng::fnv1a(s.as_bytes()) as u32)
    } else {
        t
    }
}

pub fn write_replay(scn: &dyn Scenario, seed: u64, run: u64, tier: Tier, plan: &Value, original: Option<&Value>, v: &Violation, min_execs: u64) -> String {
    let dir = format!("{}/replays", verif_root());
    let _ = std::fs::create_dir_all(&dir);
    let path = format!("{}/{}-s{}-r{}.json", dir, sanitize(&v.signature), seed, run);
    let r = eval_if_cheap(scn, plan, seed, run, &v.signature);
    let doc = json!({
        "property": v.property,
        "scenario": scn.id(),
        "layer": scn.info().layer,
        "seed": seed,
        "run": run,
        "tier": tier.name(),
        "plan": plan,
        "unminimised_plan": original,
        "minimiser_executions": min_execs,
        "expect": {"clause": v.clause, "signature": v.signature, "message": v.message, "step": v.step, "journal_hash": r},
        "repo_head": repo_head(),
    });
    let _ = std::fs::write(&path, serde_json::to_string_pretty(&doc).unwrap());
    path
}

fn eval_if_cheap(scn: &dyn Scenario, plan: &Value, seed: u64, run: u64, sig: &str) -> Value {
    if is_crash_sig(sig) {
        Value::Null
    } else {
        let r = eval_in_child(scn, plan, seed, run);
        Value::String(format!("{:016x}", r.journal_hash))
    }
}

pub fn repo_head() -> String {
    Command::new("git")
        .args(["-C", "/repo", "rev-parse", "HEAD"])
        .output()
        .ok()
        .map(|o| String::from_utf8_lossy(&o.stdout).trim().to_string())
        .unwrap_or_default()
}

// ------------------------------------------------------------------------------------------
// Check command

pub fn check_main(scn: &dyn Scenario, tier: Tier, seed: u64) -> i32 {
    let start = Instant::now();
    let id = scn.id();
    let total = scn.runs(tier);
    let workers = n_workers();
    println!("opcua-sim: property={} tier={} VERIF_SEED={} runs={} workers={}", id, tier.name(), seed, total, workers);
    let agg = run_batch(scn, tier, seed, total, workers);
    let known = load_known();

    let mut exit = 0;
    if !agg.harness_errors.is_empty() {
        for e in agg.harness_errors.iter().take(5) {
            println!("HARNESS-ERROR: {}", e);
        }
        exit = 2;
    }

    // Group violations by signature.
    let mut by_sig: BTreeMap<String, Vec<&(u64, Violation)>> = BTreeMap::new();
    for rv in agg.violations.iter() {
        by_sig.entry(rv.1.signature.clone()).or_default().push(rv);
    }
    let mut own_new = 0u64;
    let mut known_seen: Vec<String> = Vec::new();
    let mut foreign: BTreeMap<String, u64> = BTreeMap::new();
    let mut replay_paths: Vec<String> = Vec::new();
    for (sig, list) in by_sig.iter() {
        let v = &list[0].1;
        if v.property != id {
            *foreign.entry(sig.clone()).or_insert(0) += list.len() as u64;
            continue;
        }
        if let Some(text) = known.lookup(&v.property, sig) {
            println!("KNOWN-FINDING: property={} {} {} (seen in {} runs)", v.property, sig, text, list.len());
            known_seen.push(sig.clone());
            continue;
        }
        own_new += 1;
        if own_new > std::env::var("VERIF_MAX_MINIMISE").ok().and_then(|s| s.parse::<u64>().ok()).unwrap_or(4) {
            println!("VIOLATION property={} replay=- (further signature {} not minimised)", id, sig);
            continue;
        }
        // choose the run with the smallest index for stability
        let (run, viol) = list.iter().map(|rv| (rv.0, &rv.1)).min_by_key(|x| x.0).unwrap();
        let plan = scn.gen(seed, run, tier);
        let (minplan, execs) = if reproduces(scn, &plan, seed, run, sig) {
            minimise(scn, &plan, seed, run, sig)
        } else {
            println!("HARNESS-ERROR: violation {} of run {} did not reproduce from its plan (non-determinism)", sig, run);
            exit = 2;
            (plan.clone(), 0)
        };
        // refresh message/step from the minimised plan
        let mut vv = viol.clone();
        if !is_crash_sig(sig) {
            let r = eval_in_child(scn, &minplan, seed, run);
            if let Some(x) = r.violations.iter().find(|x| &x.signature == sig) {
                vv = x.clone();
            }
        }
        let path = write_replay(scn, seed, run, tier, &minplan, Some(&plan), &vv, execs);
        println!("  {} :: {}", sig, vv.message);
        println!("VIOLATION property={} replay={}", id, path);
        replay_paths.push(path);
    }
    for (sig, n) in foreign.iter() {
        println!("note: observation attributed to another property (not part of this verdict): {} x{}", sig, n);
    }
    if own_new > 0 && exit == 0 {
        exit = 1;
    }

    // Evidence
    let info = scn.info();
    let wall = start.elapsed().as_secs_f64();
    let mut faults = Map::new();
    let mut probes = Map::new();
    let mut other = Map::new();
    for (k, v) in agg.counters.iter() {
        if let Some(n) = k.strip_prefix("fault.") {
            faults.insert(n.to_string(), json!(v));
        } else if let Some(n) = k.strip_prefix("probe.") {
            probes.insert(n.to_string(), json!(v));
        } else {
            other.insert(k.clone(), json!(v));
        }
    }
    let zero_probes: Vec<String> = probes
        .iter()
        .filter(|(_, v)| v.as_u64() == Some(0))
        .map(|(k, _)| k.clone())
        .collect();
    let mut samples = agg.samples.clone();
    if agg.longest.1 > 0 && samples.len() < 3 {
        samples.push(json!({"run": agg.longest.0, "longest": true, "plan": scn.gen(seed, agg.longest.0, tier)}));
    }
    if samples.is_empty() {
        samples.push(json!({"run": 0, "plan": scn.gen(seed, 0, tier)}));
    }
    let mut assumptions: Vec<String> = info.assumptions.iter().map(|s| s.to_string()).collect();
    for s in known_seen.iter() {
        assumptions.push(format!("known finding reproduced in this run (not an alarm): {}", s));
    }
    let ev = json!({
        "property_id": id,
        "tier": tier.name(),
        "seed": seed,
        "level": info.level,
        "coverage": {
            "evaluations": agg.evaluations,
            "distinct_nontrivial": agg.shapes.len(),
            "distinct_shapes_all": agg.all_shapes.len(),
            "rule": info.rule,
            "samples": samples,
            "exhaustive": info.exhaustive,
            "simulated_time_s": (agg.vtime_us as f64) / 1e6,
            "steps_executed": agg.steps,
            "runs_per_hour": if wall > 0.0 { (agg.evaluations as f64) * 3600.0 / wall } else { 0.0 },
            "faults_fired": faults,
            "probes": probes,
            "probes_at_zero": zero_probes,
            "counters": other,
            "layer": info.layer,
            "components_real": info.real,
            "components_stubbed": info.stubbed,
            "fault_kinds": info.fault_kinds,
            "observations_attributed_elsewhere": foreign,
            "known_findings_seen": known_seen,
            "stopped_early_after_violations": agg.stopped_early,
            "replays": replay_paths,
        },
        "assumptions": assumptions,
        "wall_s": wall,
        "violations": own_new,
        "repo_head": repo_head(),
    });
    let dir = format!("{}/evidence", verif_root());
    let _ = std::fs::create_dir_all(&dir);
    let _ = std::fs::write(format!("{}/{}.json", dir, id), serde_json::to_string_pretty(&ev).unwrap());
    if tier == Tier::Thorough {
        // keep the last thorough result next to the per-check evidence file (which the next
        // quick run overwrites)
        let tdir = format!("{}/thorough", dir);
        let _ = std::fs::create_dir_all(&tdir);
        let _ = std::fs::write(format!("{}/{}.json", tdir, id), serde_json::to_string_pretty(&ev).unwrap());
    }
    println!(
        "opcua-sim: property={} runs={} distinct_nontrivial={} violations={} known={} wall={:.1}s exit={}",
        id,
        agg.evaluations,
        agg.shapes.len(),
        own_new,
        known_seen.len(),
        wall,
        exit
    );
    exit
}

pub fn replay_main(scn: &dyn Scenario, doc: &Value, path: &str) -> i32 {
    let seed = doc["seed"].as_u64().unwrap_or(1);
    let run = doc["run"].as_u64().unwrap_or(0);
    let sig = doc["expect"]["signature"].as_str().unwrap_or("").to_string();
    let plan = &doc["plan"];
    let r = eval_in_child(scn, plan, seed, run);
    for j in r.journal.iter() {
        println!("{}", j);
    }
    if let Some(e) = r.harness_error {
        println!("HARNESS-ERROR: {}", e);
        return 2;
    }
    let prop = doc["property"].as_str().unwrap_or(scn.id());
    if let Some(v) = r.violations.iter().find(|v| v.signature == sig) {
        println!("  {} :: {}", v.signature, v.message);
        if let Some(h) = doc["expect"]["journal_hash"].as_str() {
            let now = format!("{:016x}", r.journal_hash);
            println!("  journal hash expected={} now={} {}", h, now, if h == now { "(identical)" } else { "(differs: tree or harness changed)" });
        }
        println!("VIOLATION property={} replay={}", prop, path);
        1
    } else {
        println!("replay: signature {} not reproduced ({} other violations)", sig, r.violations.len());
        for v in r.violations.iter() {
            println!("  other: {} :: {}", v.signature, v.message);
        }
        0
    }
}

/// Determinism self-test: run the first `n` runs twice with different worker layouts and
/// compare journal hashes.
pub fn determinism_main(scn: &dyn Scenario, tier: Tier, seed: u64, n: u64) -> i32 {
    let total = scn.runs(tier).min(n);
    let a = run_batch(scn, tier, seed, total, 16);
    let b = run_batch(scn, tier, seed, total, 3);
    let c = run_batch(scn, tier, seed, total, 7);
    let mut mismatches = 0;
    for (run, h) in a.hashes.iter() {
        let hb = b.hashes.get(run);
        let hc = c.hashes.get(run);
        if hb != Some(h) || hc != Some(h) {
            mismatches += 1;
            if mismatches <= 10 {
                println!("MISMATCH run={} a={} b={:?} c={:?}", run, h, hb, hc);
            }
        }
    }
    let sa: BTreeSet<String> = a.violations.iter().map(|v| format!("{}:{}", v.0, v.1.signature)).collect();
    let sb: BTreeSet<String> = b.violations.iter().map(|v| format!("{}:{}", v.0, v.1.signature)).collect();
    if sa != sb {
        println!("MISMATCH violation sets differ: {} vs {}", sa.len(), sb.len());
        mismatches += 1;
    }
    println!(
        "determinism: property={} runs={} compared={} mismatches={} harness_errors={}",
        scn.id(),
        total,
        a.hashes.len(),
        mismatches,
        a.harness_errors.len() + b.harness_errors.len()
    );
    if mismatches == 0 && a.hashes.len() as u64 + a.violations.iter().filter(|v| v.1.clause == "crash").count() as u64 >= total {
        0
    } else {
        2
    }
}
