//! Lock-order recorder (H5 lock seam, record mode) and the lock graph analysis.
//!
//! Every acquisition made through `opcua::sync::{RwLock, Mutex}` reports (instance address, type
//! of the protected value, mode, call site). On the single simulated thread, guards are not held
//! across await points, so a thread-local stack of held locks is exactly the set of locks the
//! running task holds. Each blocking acquisition while other locks are held adds an edge
//! held instance -> acquired instance, annotated with both modes, both call sites and the other
//! locks held at that moment (gate locks).
//!
//! A potential deadlock is a cycle of edges i_1 -> i_2 -> ... -> i_1 over lock *instances* such
//! that (a) every acquisition can actually be blocked by the next holder (not Read against Read)
//! and (b) no two edges of the cycle are serialised by a common gate lock that at least one of them
//! holds exclusively (classic gate-lock refinement of lock-order graphs). Cycles are reported by
//! the protected types of their instances.

use opcua::verif::sync::{Kind, LockEvent, Observer};
use std::cell::RefCell;
use std::collections::{BTreeMap, BTreeSet};
use std::sync::{Arc, Mutex};

#[derive(Clone, Debug, PartialEq, Eq, PartialOrd, Ord)]
pub struct EdgeKey {
    pub src: usize,
    pub dst: usize,
    pub src_kind: Kind,
    pub dst_kind: Kind,
    /// other locks held: (instance, held exclusively)
    pub gates: Vec<(usize, bool)>,
}

#[derive(Clone, Debug)]
pub struct Example {
    pub held_site: String,
    pub acquire_site: String,
    pub count: u64,
}

#[derive(Default)]
pub struct Graph {
    pub edges: BTreeMap<EdgeKey, Example>,
    pub class_of: BTreeMap<usize, String>,
    /// class-level edge counts (reach measure)
    pub class_edges: BTreeMap<(String, String), u64>,
    /// same instance acquired again while held
    pub reentrant: BTreeMap<(usize, Kind, Kind), Example>,
    /// instances that were acquired exclusively at least once
    pub written: BTreeSet<usize>,
    pub acquisitions: u64,
    pub max_depth: usize,
    /// live lock address -> stable instance id (addresses are reused after a lock is dropped)
    pub id_of: BTreeMap<usize, usize>,
    pub next_id: usize,
}

pub struct Recorder {
    pub graph: Mutex<Graph>,
}

thread_local! {
    /// held locks of the running task, with `addr` already replaced by the stable instance id
    static HELD: RefCell<Vec<LockEvent>> = RefCell::new(Vec::new());
}

impl Graph {
    fn id(&mut self, addr: usize) -> usize {
        if let Some(i) = self.id_of.get(&addr) {
            return *i;
        }
        self.next_id += 1;
        let i = self.next_id;
        self.id_of.insert(addr, i);
        i
    }
}

pub fn class_name(full: &str) -> String {
    // keep the last path segment of every identifier, also inside generics
    let mut out = String::new();
    let mut ident = String::new();
    let flush = |ident: &mut String, out: &mut String| {
        if !ident.is_empty() {
            let last = ident.rsplit("::").next().unwrap_or("").to_string();
            out.push_str(&last);
            ident.clear();
        }
    };
    for ch in full.chars() {
        if ch.is_alphanumeric() || ch == '_' || ch == ':' {
            ident.push(ch);
        } else {
            flush(&mut ident, &mut out);
            out.push(ch);
        }
    }
    flush(&mut ident, &mut out);
    out
}

fn site(ev: &LockEvent) -> String {
    let f = ev.site.file();
    let f = f.rsplit("lib/src/").next().unwrap_or(f);
    format!("{}:{}", f, ev.site.line())
}

fn exclusive(k: Kind) -> bool {
    k != Kind::Read
}

impl Observer for Recorder {
    fn acquired(&self, ev: &LockEvent) {
        let cls = class_name(ev.class);
        HELD.with(|h| {
            let mut h = h.borrow_mut();
            let mut g = self.graph.lock().unwrap();
            let mut ev = *ev;
            ev.addr = g.id(ev.addr);
            let ev = &ev;
            g.acquisitions += 1;
            g.class_of.entry(ev.addr).or_insert_with(|| cls.clone());
            if exclusive(ev.kind) {
                g.written.insert(ev.addr);
            }
            // a try-acquisition cannot block, so it creates no incoming edge
            if !ev.try_only {
                for (i, held) in h.iter().enumerate() {
                    let ex = Example { held_site: site(held), acquire_site: site(ev), count: 1 };
                    if held.addr == ev.addr {
                        g.reentrant.entry((ev.addr, held.kind, ev.kind)).and_modify(|e| e.count += 1).or_insert(ex);
                        continue;
                    }
                    let mut gates: Vec<(usize, bool)> = h.iter().enumerate().filter(|(j, o)| *j != i && o.addr != ev.addr && o.addr != held.addr).map(|(_, o)| (o.addr, exclusive(o.kind))).collect();
                    gates.sort();
                    gates.dedup();
                    let key = EdgeKey { src: held.addr, dst: ev.addr, src_kind: held.kind, dst_kind: ev.kind, gates };
                    g.edges.entry(key).and_modify(|e| e.count += 1).or_insert(ex);
                    *g.class_edges.entry((class_name(held.class), cls.clone())).or_insert(0) += 1;
                }
            }
            h.push(*ev);
            let d = h.len();
            if d > g.max_depth {
                g.max_depth = d;
            }
        });
    }
    fn destroyed(&self, addr: usize) {
        self.graph.lock().unwrap().id_of.remove(&addr);
    }
    fn released(&self, ev: &LockEvent) {
        let id = self.graph.lock().unwrap().id(ev.addr);
        let mut ev = *ev;
        ev.addr = id;
        let ev = &ev;
        HELD.with(|h| {
            let mut h = h.borrow_mut();
            if let Some(pos) = h.iter().rposition(|x| x.addr == ev.addr && x.kind == ev.kind) {
                h.remove(pos);
            }
        });
    }
}

pub fn install() -> Arc<Recorder> {
    HELD.with(|h| h.borrow_mut().clear());
    let r = Arc::new(Recorder { graph: Mutex::new(Graph::default()) });
    opcua::verif::sync::set_observer(Some(r.clone()));
    r
}

pub fn uninstall() {
    opcua::verif::sync::set_observer(None);
    HELD.with(|h| h.borrow_mut().clear());
}

#[derive(Clone, Debug)]
pub struct Cycle {
    /// class names in cycle order, rotated so that the smallest comes first
    pub classes: Vec<String>,
    /// which acquisitions go against the documented order, by the file in which the outer lock
    /// was taken: `Held@file` (all edges when the documented order does not rank the classes)
    pub culprits: Vec<String>,
    pub description: String,
}

/// Documented order (server/services/message_handler.rs): ServerState, Session, AddressSpace. It is
/// used only to *name* the acquisition that goes the wrong way in a cycle, never to decide whether
/// there is a cycle.
pub fn rank(class: &str) -> Option<u32> {
    match class {
        "ServerState" => Some(1),
        "SessionManager" => Some(2),
        "Session" => Some(3),
        "AddressSpace" => Some(4),
        _ => None,
    }
}

fn file_of(site: &str) -> String {
    site.rsplit_once(':').map(|x| x.0.to_string()).unwrap_or_else(|| site.to_string())
}

/// Two edges can be in progress at the same time unless a common gate lock serialises them.
fn compatible(a: &EdgeKey, b: &EdgeKey) -> bool {
    // everything a task holds while it waits: its gates and the source lock of its edge
    let held = |e: &EdgeKey| -> Vec<(usize, bool)> {
        let mut v = e.gates.clone();
        v.push((e.src, exclusive(e.src_kind)));
        v
    };
    for (ga, xa) in held(a).iter() {
        for (gb, xb) in held(b).iter() {
            if ga == gb && (*xa || *xb) {
                return false;
            }
        }
    }
    true
}

/// Find potential deadlocks: simple cycles of up to `max_len` instances with mode- and
/// gate-compatible edge contexts.
pub fn potential_deadlocks(g: &Graph, max_len: usize) -> Vec<Cycle> {
    let mut by_pair: BTreeMap<(usize, usize), Vec<&EdgeKey>> = BTreeMap::new();
    for k in g.edges.keys() {
        by_pair.entry((k.src, k.dst)).or_default().push(k);
    }
    let mut adj: BTreeMap<usize, Vec<usize>> = BTreeMap::new();
    for (s, d) in by_pair.keys() {
        adj.entry(*s).or_default().push(*d);
    }
    let mut found: BTreeMap<Vec<String>, Cycle> = BTreeMap::new();
    let nodes: Vec<usize> = adj.keys().cloned().collect();
    for &start in nodes.iter() {
        // DFS for simple cycles whose smallest node is `start`
        let mut path = vec![start];
        dfs(start, start, &adj, &by_pair, g, max_len, &mut path, &mut found);
    }
    found.into_values().collect()
}

#[allow(clippy::too_many_arguments)]
fn dfs(start: usize, cur: usize, adj: &BTreeMap<usize, Vec<usize>>, by_pair: &BTreeMap<(usize, usize), Vec<&EdgeKey>>, g: &Graph, max_len: usize, path: &mut Vec<usize>, found: &mut BTreeMap<Vec<String>, Cycle>) {
    let Some(nexts) = adj.get(&cur) else { return };
    for &n in nexts.iter() {
        if n == start && path.len() >= 2 {
            check_cycle(path, by_pair, g, found);
        } else if n > start && !path.contains(&n) && path.len() < max_len {
            path.push(n);
            dfs(start, n, adj, by_pair, g, max_len, path, found);
            path.pop();
        }
    }
}

fn check_cycle(path: &[usize], by_pair: &BTreeMap<(usize, usize), Vec<&EdgeKey>>, g: &Graph, found: &mut BTreeMap<Vec<String>, Cycle>) {
    let k = path.len();
    // candidate contexts per edge i: path[i] -> path[(i+1)%k]
    let cands: Vec<&Vec<&EdgeKey>> = (0..k).map(|i| &by_pair[&(path[i], path[(i + 1) % k])]).collect();
    let mut choice = vec![0usize; k];
    let mut combos = 0u32;
    loop {
        combos += 1;
        let sel: Vec<&EdgeKey> = (0..k).map(|i| cands[i][choice[i]]).collect();
        // (a) blocking: thread i wants path[i+1] in mode sel[i].dst_kind while thread i+1 holds it in mode sel[i+1].src_kind
        let blocking = (0..k).all(|i| !(sel[i].dst_kind == Kind::Read && sel[(i + 1) % k].src_kind == Kind::Read));
        // (b) no common gate
        let mut gate_ok = true;
        for i in 0..k {
            for j in (i + 1)..k {
                if !compatible(sel[i], sel[j]) {
                    gate_ok = false;
                }
            }
        }
        if blocking && gate_ok {
            let classes: Vec<String> = path.iter().map(|a| g.class_of.get(a).cloned().unwrap_or_else(|| "?".into())).collect();
            // rotate so that the smallest class name comes first (stable signature)
            let minpos = (0..k).min_by_key(|i| (&classes[*i], *i)).unwrap_or(0);
            let rot: Vec<String> = (0..k).map(|i| classes[(minpos + i) % k].clone()).collect();
            // name the acquisitions that go against the documented order
            let mut culprits: Vec<String> = Vec::new();
            let mut all: Vec<String> = Vec::new();
            for e in sel.iter() {
                let sc = g.class_of.get(&e.src).cloned().unwrap_or_default();
                let dc = g.class_of.get(&e.dst).cloned().unwrap_or_default();
                let tag = format!("{}@{}", sc, file_of(&g.edges[*e].held_site));
                all.push(tag.clone());
                if let (Some(a), Some(b)) = (rank(&sc), rank(&dc)) {
                    if a > b {
                        culprits.push(tag);
                    }
                }
            }
            if culprits.is_empty() {
                culprits = all;
            }
            culprits.sort();
            culprits.dedup();
            let mut key = rot.clone();
            key.push("/".into());
            key.extend(culprits.iter().cloned());
            if !found.contains_key(&key) {
                let mut parts = Vec::new();
                for i in 0..k {
                    let e = sel[(minpos + i) % k];
                    let ex = &g.edges[e];
                    let gates: Vec<String> = e.gates.iter().map(|(a, x)| format!("{}{}", g.class_of.get(a).cloned().unwrap_or_default(), if *x { "(excl)" } else { "(shared)" })).collect();
                    parts.push(format!(
                        "a task holding {} ({:?}, taken at {}) acquires {} ({:?}) at {}{}",
                        g.class_of.get(&e.src).cloned().unwrap_or_default(),
                        e.src_kind,
                        ex.held_site,
                        g.class_of.get(&e.dst).cloned().unwrap_or_default(),
                        e.dst_kind,
                        ex.acquire_site,
                        if gates.is_empty() { String::new() } else { format!(" [also holding {}]", gates.join(", ")) }
                    ));
                }
                found.insert(key, Cycle { classes: rot, culprits, description: parts.join("; while ") });
            }
        }
        if combos > 20_000 {
            return;
        }
        // next combination
        let mut i = 0;
        loop {
            if i == k {
                return;
            }
            choice[i] += 1;
            if choice[i] < cands[i].len() {
                break;
            }
            choice[i] = 0;
            i += 1;
        }
    }
}
