//! C15 No service is processed before the handshake or after channel close.
//!
//! L2: a raw client sends a plan-chosen sequence of HEL / OPN / MSG / CLO frames (valid contents)
//! to the real server reader loop and records everything that comes back on the wire.

use crate::ctx::Ctx;
use crate::framework::{Info, Scenario, Tier};
use crate::l2::{self, Conn, Recv, ServerSpec};
use crate::rng::Rng;
use opcua::core::supported_message::SupportedMessage;
use opcua::types::*;
use serde_json::{json, Value};
use std::time::Duration;

pub struct C15;

const OPS: [&str; 7] = ["hel", "opn", "renew", "get_endpoints", "create_session", "read", "clo"];

fn enum_count(max_len: u32) -> u64 {
    (1..=max_len).map(|l| 7u64.pow(l)).sum()
}

fn enum_seq(mut k: u64, max_len: u32) -> Vec<&'static str> {
    for l in 1..=max_len {
        let n = 7u64.pow(l);
        if k < n {
            let mut v = Vec::new();
            for _ in 0..l {
                v.push(OPS[(k % 7) as usize]);
                k /= 7;
            }
            return v;
        }
        k -= n;
    }
    vec![]
}

impl Scenario for C15 {
    fn id(&self) -> &'static str {
        "C15"
    }
    fn info(&self) -> Info {
        Info {
            level: "fault_enumeration",
            exhaustive: false,
            layer: "L2 (real server reader/writer/timer tasks on a paused seeded tokio runtime, raw scripted client)",
            rule: "run = one frame history on a fresh connection. Enumerated: every sequence over {HEL, OPN-issue, OPN-renew, MSG GetEndpoints, MSG CreateSession, MSG Read, CLO} of length <= 4 (quick) / <= 5 (thorough); the rest are seeded random histories of length 5-12 with random segmentation and pauses. non-trivial = history contains a frame that is out of protocol order (anything but HEL first, MSG/CLO/renew before an issued channel, anything after CLO) ; distinct = distinct (history, per-step outcome class) hash.",
            real: vec!["server::comms::tcp_transport (run, reader loop, wait_for_hello, process_hello, process_chunk, writer loop, timer task)", "SecureChannelService", "MessageHandler + services", "TcpCodec/FramedRead", "Chunker", "SecureChannel"],
            stubbed: vec!["TCP socket (tokio in-memory duplex through the verif::net seam)", "listener/accept loop"],
            assumptions: vec!["security policy None (handshake order does not depend on the policy; secured OPN is exercised by C14)"],
            fault_kinds: vec!["out_of_order_frame", "segmentation", "delay", "request_pipelined_behind_close"],
        }
    }
    fn runs(&self, tier: Tier) -> u64 {
        match tier {
            Tier::Quick => enum_count(4) + 1200,
            Tier::Thorough => enum_count(5) + 40_000,
        }
    }
    fn gen(&self, seed: u64, run: u64, tier: Tier) -> Value {
        let max_len = if tier == Tier::Thorough { 5 } else { 4 };
        let n = enum_count(max_len);
        if run < n {
            let seq = enum_seq(run, max_len);
            return json!({"steps": seq.iter().map(|o| json!({"op": o})).collect::<Vec<_>>(), "seg": 0, "pause_us": 0, "tseed": run});
        }
        let mut rng = Rng::new(crate::framework::run_seed(seed, "C15", run));
        let len = rng.urange(5, 12);
        let mut steps = Vec::new();
        // bias: often start with a valid prefix so that the late part of the protocol is reached
        let valid_prefix = rng.below(4);
        if valid_prefix >= 1 {
            steps.push(json!({"op": "hel"}));
        }
        if valid_prefix >= 2 {
            steps.push(json!({"op": "opn"}));
        }
        while steps.len() < len {
            if rng.chance(0.12) {
                // Byzantine / pipelined frames that the plain enumeration does not contain
                steps.push(json!({"op": *rng.pick(&["opn_c_then_msg", "opn_bad_mode", "clo_pipelined_create"])}));
            } else {
                steps.push(json!({"op": *rng.pick(&OPS)}));
            }
        }
        json!({"steps": steps, "seg": *rng.pick(&[0usize, 1, 3, 7, 64]), "pause_us": *rng.pick(&[0u64, 0, 10, 1000, 200_000]), "tseed": rng.next_u64() >> 12})
    }
    fn exec(&self, plan: &Value, ctx: &mut Ctx) {
        let rt = l2::runtime(plan["tseed"].as_u64().unwrap_or(1));
        rt.block_on(run(plan, ctx));
    }
    fn simplify(&self, plan: &Value) -> Vec<Value> {
        let mut out = Vec::new();
        for (k, v) in [("seg", json!(0)), ("pause_us", json!(0))] {
            if plan[k] != v {
                let mut p = plan.clone();
                p[k] = v;
                out.push(p);
            }
        }
        out
    }
}

async fn run(plan: &Value, ctx: &mut Ctx) {
    crate::hooks::follow_tokio();
    let server = l2::build_server(&ServerSpec::default());
    let mut c = Conn::connect(&server, 100.0, 1 << 20, 50000);
    let seg = plan["seg"].as_u64().unwrap_or(0) as usize;
    let pause = plan["pause_us"].as_u64().unwrap_or(0);
    let steps = plan["steps"].as_array().cloned().unwrap_or_default();

    // protocol model of what a correct peer sequence would be
    let mut acked = false; // server sent an ACK
    let mut channel_open = false; // an OPN response was received
    let mut closed = false; // a CLO was sent while the channel was open
    let mut req_step: Vec<(u32, usize, &'static str)> = Vec::new();
    let mut pipelined_after_close = 0u32;
    let mut sessions_created = 0u32; // CreateSession responses seen
    let t0 = tokio::time::Instant::now();

    for (i, s) in steps.iter().enumerate() {
        ctx.step(i);
        let op = s["op"].as_str().unwrap_or("");
        let in_order = match op {
            "hel" => !acked,
            "opn" => acked && !closed,
            "renew" | "get_endpoints" | "create_session" | "read" | "clo" | "clo_pipelined_create" => acked && channel_open && !closed,
            "opn_c_then_msg" | "opn_bad_mode" => false,
            _ => true,
        };
        if !in_order {
            ctx.fault("out_of_order_frame");
        }
        let create_session_msg = |c: &mut Conn| -> SupportedMessage {
            CreateSessionRequest {
                request_header: c.header(),
                client_description: ApplicationDescription::default(),
                server_uri: UAString::null(),
                endpoint_url: UAString::from(l2::ENDPOINT_URL),
                session_name: UAString::from("s"),
                client_nonce: ByteString::from(vec![1u8; 32]),
                client_certificate: ByteString::null(),
                requested_session_timeout: 60000.0,
                max_response_message_size: 0,
            }
            .into()
        };
        let bytes: Vec<Vec<u8>> = match op {
            "hel" => vec![Conn::hello_bytes(l2::ENDPOINT_URL, 65536, 65536, 0, 0)],
            // an OPN-typed intermediate chunk followed by a MSG final chunk that together hold a
            // GetEndpoints request
            "opn_c_then_msg" => {
                use opcua::core::comms::message_chunk::{MessageChunk, MessageChunkType, MessageIsFinalType};
                let msg: SupportedMessage = GetEndpointsRequest { request_header: c.header(), endpoint_url: UAString::from(l2::ENDPOINT_URL), locale_ids: None, profile_uris: None }.into();
                let mut body = Vec::new();
                let _ = msg.node_id().encode(&mut body);
                let _ = msg.encode(&mut body);
                let cut = body.len() / 2;
                let id = c.next_req;
                c.next_req += 1;
                let mut v = Vec::new();
                if let (Ok(a), Ok(b)) = (
                    MessageChunk::new(c.next_seq, id, MessageChunkType::OpenSecureChannel, MessageIsFinalType::Intermediate, &c.chan, &body[..cut]),
                    MessageChunk::new(c.next_seq + 1, id, MessageChunkType::Message, MessageIsFinalType::Final, &c.chan, &body[cut..]),
                ) {
                    c.next_seq += 2;
                    req_step.push((id, i, "svc"));
                    v.push(a.data);
                    v.push(b.data);
                }
                v
            }
            // an OpenSecureChannel request that the server has to refuse
            "opn_bad_mode" => {
                let mut msg = c.opn_request(false, 600_000);
                if let SupportedMessage::OpenSecureChannelRequest(ref mut r) = msg {
                    r.security_mode = MessageSecurityMode::Invalid;
                }
                match c.encode_message(&msg) {
                    Ok((id, chunks)) => {
                        req_step.push((id, i, "opn_bad"));
                        chunks
                    }
                    Err(_) => vec![],
                }
            }
            // CloseSecureChannel and a CreateSession request in one write
            "clo_pipelined_create" => {
                let clo: SupportedMessage = CloseSecureChannelRequest { request_header: c.header() }.into();
                let cs = create_session_msg(&mut c);
                let mut one = Vec::new();
                if let Ok((id, chunks)) = c.encode_message(&clo) {
                    req_step.push((id, i, "clo"));
                    for ch in chunks {
                        one.extend_from_slice(&ch);
                    }
                }
                if let Ok((id, chunks)) = c.encode_message(&cs) {
                    req_step.push((id, i + 1000, "svc"));
                    for ch in chunks {
                        one.extend_from_slice(&ch);
                    }
                }
                if channel_open && acked && !closed {
                    pipelined_after_close += 1;
                }
                vec![one]
            }
            _ => {
                let msg: SupportedMessage = match op {
                    "opn" => c.opn_request(false, 600_000),
                    "renew" => c.opn_request(true, 600_000),
                    "get_endpoints" => GetEndpointsRequest {
                        request_header: c.header(),
                        endpoint_url: UAString::from(l2::ENDPOINT_URL),
                        locale_ids: None,
                        profile_uris: None,
                    }
                    .into(),
                    "create_session" => CreateSessionRequest {
                        request_header: c.header(),
                        client_description: ApplicationDescription::default(),
                        server_uri: UAString::null(),
                        endpoint_url: UAString::from(l2::ENDPOINT_URL),
                        session_name: UAString::from("s"),
                        client_nonce: ByteString::from(vec![1u8; 32]),
                        client_certificate: ByteString::null(),
                        requested_session_timeout: 60000.0,
                        max_response_message_size: 0,
                    }
                    .into(),
                    "read" => ReadRequest {
                        request_header: c.header(),
                        max_age: 0.0,
                        timestamps_to_return: TimestampsToReturn::Neither,
                        nodes_to_read: Some(vec![ReadValueId {
                            node_id: VariableId::Server_ServerStatus_State.into(),
                            attribute_id: AttributeId::Value as u32,
                            index_range: UAString::null(),
                            data_encoding: QualifiedName::null(),
                        }]),
                    }
                    .into(),
                    _ => CloseSecureChannelRequest { request_header: c.header() }.into(),
                };
                match c.encode_message(&msg) {
                    Ok((id, chunks)) => {
                        req_step.push((id, i, match op {
                            "opn" => "opn",
                            "renew" => "renew",
                            "clo" => "clo",
                            _ => "svc",
                        }));
                        chunks
                    }
                    Err(_) => vec![],
                }
            }
        };
        let mut sent = true;
        for b in bytes.iter() {
            if seg > 0 {
                ctx.fault("segmentation");
                let segs: Vec<usize> = (0..(b.len() / seg + 1)).map(|_| seg).collect();
                sent &= c.send_segmented(b, &segs, pause.min(1000)).await;
            } else {
                sent &= c.send_bytes(b).await;
            }
        }
        if pause > 0 {
            ctx.fault("delay");
            tokio::time::sleep(Duration::from_micros(pause)).await;
        }
        if (op == "clo" || op == "clo_pipelined_create") && channel_open && acked && !closed && sent {
            closed = true;
        }
        // collect what the server says within 20 virtual ms
        let got = c.drain(Duration::from_millis(20)).await;
        let mut classes = Vec::new();
        for r in got.iter() {
            classes.push(l2::recv_kind(r));
            match r {
                Recv::Ack(_) => {
                    if acked {
                        ctx.violate("C15", "second-ack", "", format!("server acknowledged a second Hello at step {}", i));
                    }
                    acked = true;
                }
                Recv::Msg(id, m) => {
                    let origin = req_step.iter().find(|x| x.0 == *id).cloned();
                    let kind = l2::msg_kind(m);
                    if !acked {
                        ctx.violate("C15", "answer-before-ack", "", format!("server sent {} before acknowledging a Hello (step {})", kind, i));
                    }
                    let is_opn_resp = matches!(m, SupportedMessage::OpenSecureChannelResponse(_));
                    if matches!(m, SupportedMessage::CreateSessionResponse(_)) {
                        sessions_created += 1;
                    }
                    match origin {
                        Some((_, j, what)) => {
                            if what == "svc" && !channel_open {
                                ctx.violate(
                                    "C15",
                                    "service-before-open",
                                    "",
                                    format!("request of step {} was answered with {} although no secure channel had been issued", j, kind),
                                );
                            }
                            if closed && j > steps.iter().position(|s| s["op"] == "clo").unwrap_or(usize::MAX) && sent_after_close(&req_step, j) {
                                ctx.violate("C15", "processed-after-close", "", format!("request of step {} (after CloseSecureChannel) was answered with {}", j, kind));
                            }
                            if is_opn_resp && (what == "opn" || what == "renew") {
                                if let SupportedMessage::OpenSecureChannelResponse(resp) = m {
                                    let _ = c.apply_opn_response(resp);
                                }
                                channel_open = true;
                                ctx.probe("channel_opened");
                            }
                        }
                        None => {
                            ctx.violate("C15", "unsolicited-response", &kind, format!("response {} with unknown request id {} at step {}", kind, id, i));
                        }
                    }
                }
                _ => {}
            }
        }
        if op == "opn_bad_mode" && !channel_open && c.last_chunk_channel_id != 0 {
            // a Byzantine client uses whatever channel id the refusal reveals
            c.chan.set_secure_channel_id(c.last_chunk_channel_id);
            ctx.probe("channel_id_revealed_by_refusal");
        }
        if closed {
            ctx.probe("frames_after_close");
        }
        ctx.log(&format!("{}{}>{}", op, if in_order { "" } else { "!" }, classes.join(",")), "");
        if !c.is_open() {
            // connection ended: later steps cannot be delivered
            ctx.log("closed", "");
            break;
        }
    }
    if pipelined_after_close > 0 {
        // was the request that followed the CloseSecureChannel in the same write carried out? The
        // server numbers its sessions, so a fresh connection can tell.
        ctx.fault("request_pipelined_behind_close");
        tokio::time::sleep(Duration::from_millis(50)).await;
        let mut c2 = Conn::connect(&server, 100.0, 1 << 20, 50001);
        if matches!(c2.hello().await, Recv::Ack(_)) {
            c2.prepare_channel(opcua::crypto::SecurityPolicy::None, MessageSecurityMode::None, 2048);
            if matches!(c2.open(false, 600_000).await, Recv::Msg(_, SupportedMessage::OpenSecureChannelResponse(_))) {
                if let Recv::Msg(_, SupportedMessage::CreateSessionResponse(_)) = c2.create_session(60_000.0).await {
                    let name = match &c2.session_id.identifier {
                        Identifier::String(s) => s.as_ref().to_string(),
                        _ => String::new(),
                    };
                    let n: u32 = name.rsplit('-').next().and_then(|x| x.parse().ok()).unwrap_or(0);
                    if n > sessions_created + 1 {
                        ctx.violate("C15", "processed-after-close", "pipelined", format!("a CreateSession request that followed CloseSecureChannel in the same write was carried out: the server has created {} sessions, {} were answered", n - 1, sessions_created));
                    }
                }
            }
        }
    }
    ctx.advance((tokio::time::Instant::now() - t0).as_micros() as u64);
    ctx.add("bytes_sent", c.bytes_sent);
}

fn sent_after_close(req_step: &[(u32, usize, &'static str)], j: usize) -> bool {
    // true if some CLO request was sent at a step before j
    req_step.iter().any(|(_, s, w)| *w == "clo" && *s < j)
}
