//! C15 No service is processed before the handshake or after channel close.
//!
//! L2: a raw client sends a plan-chosen sequence of HEL / OPN / MSG / CLO frames (valid contents)
//! to the real server reader loop and records everything that comes back on the wire.

use crate::ctx::Ctx;
use crate::framework::{Info, Scenario, Tier};
use crate::l2::{self, Conn, Recv, ServerSpec};
use crate::rng::Rng;
use opcua::core::supported_message::SupportedMessage;
use opcua::types::*;
use serde_json::{json, Value};
use std::time::Duration;

pub struct C15;

const OPS: [&str; 7] = ["hel", "opn", "renew", "get_endpoints", "create_session", "read", "clo"];

fn enum_count(max_len: u32) -> u64 {
    (1..=max_len).map(|l| 7u64.pow(l)).sum()
}

fn enum_seq(mut k: u64, max_len: u32) -> Vec<&'static str> {
    for l in 1..=max_len {
        let n = 7u64.pow(l);
        if k < n {
            let mut v = Vec::new();
            for _ in 0..l {
                v.push(OPS[(k % 7) as usize]);
                k /= 7;
            }
            return v;
        }
        k -= n;
    }
    vec![]
}

impl Scenario for C15 {
    fn id(&self) -> &'static str {
        "C15"
    }
    fn info(&self) -> Info {
        Info {
            level: "fault_enumeration",
            exhaustive: false,
            layer: "L2 (real server reader/writer/timer tasks on a paused seeded tokio runtime, raw scripted client)",
            rule: "run = one frame history on a fresh connection. Enumerated: every sequence over {HEL, OPN-issue, OPN-renew, MSG GetEndpoints, MSG CreateSession, MSG Read, CLO} of length <= 4 (quick) / <= 5 (thorough); the rest are seeded random histories of length 5-12 with random segmentation and pauses. non-trivial = history contains a frame that is out of protocol order (anything but HEL first, MSG/CLO/renew before an issued channel, anything after CLO) ; distinct = distinct (history, per-step outcome class) hash.",
            real: vec!["server::comms::tcp_transport (run, reader loop, wait_for_hello, process_hello, process_chunk, writer loop, timer task)", "SecureChannelService", "MessageHandler + services", "TcpCodec/FramedRead", "Chunker", "SecureChannel"],
            stubbed: vec!["TCP socket (tokio in-memory duplex through the verif::net seam)", "listener/accept loop"],
            assumptions: vec!["security policy None (handshake order does not depend on the policy; secured OPN is exercised by C14)"],
            fault_kinds: vec!["out_of_order_frame", "segmentation", "delay"],
        }
    }
    fn runs(&self, tier: Tier) -> u64 {
        match tier {
            Tier::Quick => enum_count(4) + 1200,
            Tier::Thorough => enum_count(5) + 40_000,
        }
    }
    fn gen(&self, seed: u64, run: u64, tier: Tier) -> Value {
        let max_len = if tier == Tier::Thorough { 5 } else { 4 };
        let n = enum_count(max_len);
        if run < n {
            let seq = enum_seq(run, max_len);
            return json!({"steps": seq.iter().map(|o| json!({"op": o})).collect::<Vec<_>>(), "seg": 0, "pause_us": 0, "tseed": run});
        }
        let mut rng = Rng::new(crate::framework::run_seed(seed, "C15", run));
        let len = rng.urange(5, 12);
        let mut steps = Vec::new();
        // bias: often start with a valid prefix so that the late part of the protocol is reached
        let valid_prefix = rng.below(4);
        if valid_prefix >= 1 {
            steps.push(json!({"op": "hel"}));
        }
        if valid_prefix >= 2 {
            steps.push(json!({"op": "opn"}));
        }
        while steps.len() < len {
            steps.push(json!({"op": *rng.pick(&OPS)}));
        }
        json!({"steps": steps, "seg": *rng.pick(&[0usize, 1, 3, 7, 64]), "pause_us": *rng.pick(&[0u64, 0, 10, 1000, 200_000]), "tseed": rng.next_u64() >> 12})
    }
    fn exec(&self, plan: &Value, ctx: &mut Ctx) {
        let rt = l2::runtime(plan["tseed"].as_u64().unwrap_or(1));
        rt.block_on(run(plan, ctx));
    }
    fn simplify(&self, plan: &Value) -> Vec<Value> {
        let mut out = Vec::new();
        for (k, v) in [("seg", json!(0)), ("pause_us", json!(0))] {
            if plan[k] != v {
                let mut p = plan.clone();
                p[k] = v;
                out.push(p);
            }
        }
        out
    }
}

async fn run(plan: &Value, ctx: &mut Ctx) {
    crate::hooks::follow_tokio();
    let server = l2::build_server(&ServerSpec::default());
    let mut c = Conn::connect(&server, 100.0, 1 << 20, 50000);
    let seg = plan["seg"].as_u64().unwrap_or(0) as usize;
    let pause = plan["pause_us"].as_u64().unwrap_or(0);
    let steps = plan["steps"].as_array().cloned().unwrap_or_default();

    // protocol model of what a correct peer sequence would be
    let mut acked = false; // server sent an ACK
    let mut channel_open = false; // an OPN response was received
    let mut closed = false; // a CLO was sent while the channel was open
    let mut req_step: Vec<(u32, usize, &'static str)> = Vec::new();
    let t0 = tokio::time::Instant::now();

    for (i, s) in steps.iter().enumerate() {
        ctx.step(i);
        let op = s["op"].as_str().unwrap_or("");
        let in_order = match op {
            "hel" => !acked,
            "opn" => acked && !closed,
            "renew" | "get_endpoints" | "create_session" | "read" | "clo" => acked && channel_open && !closed,
            _ => true,
        };
        if !in_order {
            ctx.fault("out_of_order_frame");
        }
        let bytes: Vec<Vec<u8>> = match op {
            "hel" => vec![Conn::hello_bytes(l2::ENDPOINT_URL, 65536, 65536, 0, 0)],
            _ => {
                let msg: SupportedMessage = match op {
                    "opn" => c.opn_request(false, 600_000),
                    "renew" => c.opn_request(true, 600_000),
                    "get_endpoints" => GetEndpointsRequest {
                        request_header: c.header(),
                        endpoint_url: UAString::from(l2::ENDPOINT_URL),
                        locale_ids: None,
                        profile_uris: None,
                    }
                    .into(),
                    "create_session" => CreateSessionRequest {
                        request_header: c.header(),
                        client_description: ApplicationDescription::default(),
                        server_uri: UAString::null(),
                        endpoint_url: UAString::from(l2::ENDPOINT_URL),
                        session_name: UAString::from("s"),
                        client_nonce: ByteString::from(vec![1u8; 32]),
                        client_certificate: ByteString::null(),
                        requested_session_timeout: 60000.0,
                        max_response_message_size: 0,
                    }
                    .into(),
                    "read" => ReadRequest {
                        request_header: c.header(),
                        max_age: 0.0,
                        timestamps_to_return: TimestampsToReturn::Neither,
                        nodes_to_read: Some(vec![ReadValueId {
                            node_id: VariableId::Server_ServerStatus_State.into(),
                            attribute_id: AttributeId::Value as u32,
                            index_range: UAString::null(),
                            data_encoding: QualifiedName::null(),
                        }]),
                    }
                    .into(),
                    _ => CloseSecureChannelRequest { request_header: c.header() }.into(),
                };
                match c.encode_message(&msg) {
                    Ok((id, chunks)) => {
                        req_step.push((id, i, match op {
                            "opn" => "opn",
                            "renew" => "renew",
                            "clo" => "clo",
                            _ => "svc",
                        }));
                        chunks
                    }
                    Err(_) => vec![],
                }
            }
        };
        let mut sent = true;
        for b in bytes.iter() {
            if seg > 0 {
                ctx.fault("segmentation");
                let segs: Vec<usize> = (0..(b.len() / seg + 1)).map(|_| seg).collect();
                sent &= c.send_segmented(b, &segs, pause.min(1000)).await;
            } else {
                sent &= c.send_bytes(b).await;
            }
        }
        if pause > 0 {
            ctx.fault("delay");
            tokio::time::sleep(Duration::from_micros(pause)).await;
        }
        if op == "clo" && channel_open && acked && !closed && sent {
            closed = true;
        }
        // collect what the server says within 20 virtual ms
        let got = c.drain(Duration::from_millis(20)).await;
        let mut classes = Vec::new();
        for r in got.iter() {
            classes.push(l2::recv_kind(r));
            match r {
                Recv::Ack(_) => {
                    if acked {
                        ctx.violate("C15", "second-ack", "", format!("server acknowledged a second Hello at step {}", i));
                    }
                    acked = true;
                }
                Recv::Msg(id, m) => {
                    let origin = req_step.iter().find(|x| x.0 == *id).cloned();
                    let kind = l2::msg_kind(m);
                    if !acked {
                        ctx.violate("C15", "answer-before-ack", "", format!("server sent {} before acknowledging a Hello (step {})", kind, i));
                    }
                    let is_opn_resp = matches!(m, SupportedMessage::OpenSecureChannelResponse(_));
                    match origin {
                        Some((_, j, what)) => {
                            if what == "svc" && !channel_open {
                                ctx.violate(
                                    "C15",
                                    "service-before-open",
                                    "",
                                    format!("request of step {} was answered with {} although no secure channel had been issued", j, kind),
                                );
                            }
                            if closed && j > steps.iter().position(|s| s["op"] == "clo").unwrap_or(usize::MAX) && sent_after_close(&req_step, j) {
                                ctx.violate("C15", "processed-after-close", "", format!("request of step {} (after CloseSecureChannel) was answered with {}", j, kind));
                            }
                            if is_opn_resp && (what == "opn" || what == "renew") {
                                if let SupportedMessage::OpenSecureChannelResponse(resp) = m {
                                    let _ = c.apply_opn_response(resp);
                                }
                                channel_open = true;
                                ctx.probe("channel_opened");
                            }
                        }
                        None => {
                            ctx.violate("C15", "unsolicited-response", &kind, format!("response {} with unknown request id {} at step {}", kind, id, i));
                        }
                    }
                }
                _ => {}
            }
        }
        if closed {
            ctx.probe("frames_after_close");
        }
        ctx.log(&format!("{}{}>{}", op, if in_order { "" } else { "!" }, classes.join(",")), "");
        if !c.is_open() {
            // connection ended: later steps cannot be delivered
            ctx.log("closed", "");
            break;
        }
    }
    ctx.advance((tokio::time::Instant::now() - t0).as_micros() as u64);
    ctx.add("bytes_sent", c.bytes_sent);
}

fn sent_after_close(req_step: &[(u32, usize, &'static str)], j: usize) -> bool {
    // true if some CLO request was sent at a step before j
    req_step.iter().any(|(_, s, w)| *w == "clo" && *s < j)
}
