//! C02 Decoding arbitrary bytes never panics, overflows the stack or over-allocates.
//!
//! L2 with a corrupting channel. A raw client builds well-formed service requests with the real
//! encoder and a man-in-the-middle stage corrupts the message body in flight: bit flips, byte and
//! length-field overwrites, truncation, and adversarial nesting prefixes (DataValue / Variant,
//! Variant / Variant, DiagnosticInfo inner-info, ExtensionObject) spliced in or placed in fields
//! that are decoded as those types. Frame and chunk headers are fixed up so that the corruption
//! reaches the message decoder of the real server reader loop, which runs on a thread with the
//! stack size of a tokio worker thread (2 MiB). A second mode turns the roles around: a scripted
//! server sends the corrupted body to the real client transport.
//!
//! A stack overflow or allocation failure kills the worker process; the supervisor reports it as a
//! crash of this property.

use crate::ctx::Ctx;
use crate::framework::{Info, Scenario, Tier};
use crate::l2::{self, Conn, Recv, ServerSpec};
use crate::rawsrv::{self, RawServer, SrvRecv};
use crate::rng::Rng;
use crate::scenarios::c33_swarm::{G, KINDS};
use opcua::core::comms::message_chunk::{MessageChunk, MessageChunkType, MessageIsFinalType};
use opcua::core::supported_message::SupportedMessage;
use opcua::types::*;
use serde_json::{json, Value};
use std::sync::atomic::{AtomicUsize, Ordering};
use std::time::Duration;

pub struct C02;

// ---- allocation accounting (the whole harness process) ----

pub struct CountingAlloc;
static CUR: AtomicUsize = AtomicUsize::new(0);
static PEAK: AtomicUsize = AtomicUsize::new(0);

unsafe impl std::alloc::GlobalAlloc for CountingAlloc {
    unsafe fn alloc(&self, layout: std::alloc::Layout) -> *mut u8 {
        let p = std::alloc::System.alloc(layout);
        if !p.is_null() {
            let c = CUR.fetch_add(layout.size(), Ordering::Relaxed) + layout.size();
            PEAK.fetch_max(c, Ordering::Relaxed);
        }
        p
    }
    unsafe fn alloc_zeroed(&self, layout: std::alloc::Layout) -> *mut u8 {
        // pass through, so that a huge zeroed request stays a lazy mapping instead of being touched
        let p = std::alloc::System.alloc_zeroed(layout);
        if !p.is_null() {
            let c = CUR.fetch_add(layout.size(), Ordering::Relaxed) + layout.size();
            PEAK.fetch_max(c, Ordering::Relaxed);
        }
        p
    }
    unsafe fn dealloc(&self, p: *mut u8, layout: std::alloc::Layout) {
        CUR.fetch_sub(layout.size(), Ordering::Relaxed);
        std::alloc::System.dealloc(p, layout)
    }
    unsafe fn realloc(&self, p: *mut u8, layout: std::alloc::Layout, new_size: usize) -> *mut u8 {
        let q = std::alloc::System.realloc(p, layout, new_size);
        if !q.is_null() {
            if new_size >= layout.size() {
                let c = CUR.fetch_add(new_size - layout.size(), Ordering::Relaxed) + (new_size - layout.size());
                PEAK.fetch_max(c, Ordering::Relaxed);
            } else {
                CUR.fetch_sub(layout.size() - new_size, Ordering::Relaxed);
            }
        }
        q
    }
}

fn reset_peak() -> usize {
    let c = CUR.load(Ordering::Relaxed);
    PEAK.store(c, Ordering::Relaxed);
    c
}

fn peak_above(base: usize) -> usize {
    PEAK.load(Ordering::Relaxed).saturating_sub(base)
}

/// What one corrupted message may make the receiver allocate: the limits bound the message to
/// `max_message_size` bytes on the wire; decoded values are at most a few dozen times larger than
/// their encoding (a one-byte empty Variant is a 40-byte enum, array capacities are bounded by
/// max_array_length), the chunk buffers hold the message twice.
fn allocation_bound(max_message_size: usize) -> usize {
    64 * max_message_size + (8 << 20)
}

impl Scenario for C02 {
    fn id(&self) -> &'static str {
        "C02"
    }
    fn info(&self) -> Info {
        Info {
            level: "exploration",
            exhaustive: false,
            layer: "L2 with a corrupting channel (real server reader loop / real client transport on a 2 MiB-stack thread, raw peer), allocation counter around every delivered message",
            rule: "run = decoding limits {default, minimal, small random} and 1-6 messages, each a well-formed request of one of 27 services (structure-aware generator of C33) or a hand-assembled Write / Call / CreateMonitoredItems / Read-response body, corrupted in flight by 0-6 mutations {bit flip, byte overwrite, 4-byte length overwrite with -1 / 0 / i32::MAX / limit+1, truncation, type-id swap, nesting prefix of depth 2..200000 of kind DataValue>Variant, Variant>Variant, DiagnosticInfo inner-info, ExtensionObject, Variant array of arrays; multi-dimensional arrays whose dimensions overflow, are zero, negative or disagree with the length} with frame sizes fixed up; direction client->server (server decodes) or server->client (client decodes). Oracle: no panic (hook), no process death (stack overflow / allocation failure = worker crash), peak allocation while the message is processed <= 64 x max message size + 8 MiB, nesting deeper than the decoding depth answered with an error, and the receiver still serves a fresh connection afterwards. non-trivial = at least one mutation reached the decoder; distinct = (service, mutation kinds, outcome) hash.",
            real: vec!["server TcpTransport reader loop, Chunker::decode, SupportedMessage::decode_by_object_id and every BinaryEncoder::decode it reaches", "client TransportState::process_chunk / Chunker::decode", "DecodingOptions / DepthGauge", "TcpCodec"],
            stubbed: vec!["TCP socket", "the peer that sends the corrupted bytes (raw scripted client or server built from the real Chunker / SecureChannel)"],
            assumptions: vec!["security policy None (with Sign / SignAndEncrypt the same bytes reach the decoder only from an authenticated peer; the chunk-level layer is C09)", "receiver thread stack 2 MiB (tokio worker default); the process main thread has 8 MiB", "allocation is counted process-wide, so the bound includes the harness's own buffers for the message"],
            fault_kinds: vec!["bit_flip", "byte_overwrite", "length_overwrite", "truncate", "type_id_swap", "nest_datavalue_variant", "nest_variant_variant", "nest_diagnostic_info", "nest_extension_object", "nest_array_of_arrays", "array_dimensions", "over_limit_array", "over_limit_string", "direct_headers", "server_to_client"],
        }
    }
    fn runs(&self, tier: Tier) -> u64 {
        if tier == Tier::Thorough {
            200_000
        } else {
            6000
        }
    }
    fn gen(&self, seed: u64, run: u64, _tier: Tier) -> Value {
        let mut rng = Rng::new(crate::framework::run_seed(seed, "C02", run));
        let limits = *rng.pick(&["default", "default", "minimal", "small"]);
        let to_client = rng.chance(0.25);
        let mut steps = Vec::new();
        for _ in 0..rng.urange(1, 6) {
            let carrier = if to_client {
                *rng.pick(&["read_response", "read_response", "fault_diag"])
            } else if rng.chance(0.04) {
                "direct_headers"
            } else if rng.chance(0.45) {
                *rng.pick(&["write", "call", "create_items"])
            } else {
                *rng.pick(&KINDS)
            };
            let mut muts = Vec::new();
            let hand_built = matches!(carrier, "write" | "call" | "create_items" | "read_response" | "fault_diag");
            if hand_built {
                let kind = *rng.pick(&["nest_datavalue_variant", "nest_datavalue_variant", "nest_variant_variant", "nest_diagnostic_info", "nest_diagnostic_info", "nest_extension_object", "nest_array_of_arrays", "array_dimensions", "over_limit_array", "over_limit_string"]);
                let depth = *rng.pick(&[2u64, 5, 9, 10, 11, 12, 64, 1000, 20_000, 100_000, 200_000]);
                muts.push(json!({"m": kind, "depth": depth}));
            }
            for _ in 0..rng.below(if hand_built { 2 } else { 6 }) {
                let at = rng.below(1 << 20);
                match rng.below(6) {
                    0 => muts.push(json!({"m": "bit_flip", "at": at, "bit": rng.below(8)})),
                    1 => muts.push(json!({"m": "byte_overwrite", "at": at, "val": *rng.pick(&[0u64, 1, 0x17, 0x18, 0x19, 0x40, 0x7f, 0x80, 0xff])})),
                    2 => muts.push(json!({"m": "length_overwrite", "at": at, "val": *rng.pick(&[0xFFFF_FFFFu64, 0, 0x7FFF_FFFF, 0x8000_0000, 1001, 8193, 65536, 0x0100_0000])})),
                    3 => muts.push(json!({"m": "truncate", "at": at})),
                    4 => muts.push(json!({"m": "type_id_swap", "val": *rng.pick(&[631u64, 673, 712, 751, 826, 397, 0, 65535])})),
                    _ => muts.push(json!({"m": *rng.pick(&["nest_datavalue_variant", "nest_variant_variant", "nest_diagnostic_info"]), "at": at, "depth": *rng.pick(&[3u64, 11, 300, 30_000])})),
                }
            }
            steps.push(json!({"carrier": carrier, "rseed": rng.next_u64() >> 12, "muts": muts}));
        }
        json!({"limits": limits, "to_client": to_client, "tseed": rng.next_u64() >> 12, "steps": steps})
    }
    fn exec(&self, plan: &Value, ctx: &mut Ctx) {
        // the receiver decodes on a thread with the stack of a tokio worker thread
        let panic = std::thread::scope(|scope| {
            let h = std::thread::Builder::new()
                .name("c02-receiver".into())
                .stack_size(2 << 20)
                .spawn_scoped(scope, || {
                    let r = crate::panics::catch(|| {
                        let rt = l2::runtime(plan["tseed"].as_u64().unwrap_or(1));
                        if plan["to_client"].as_bool().unwrap_or(false) {
                            rt.block_on(run_to_client(plan, ctx));
                            rawsrv::remove_connector();
                        } else {
                            rt.block_on(run_to_server(plan, ctx));
                        }
                    });
                    // panics inside tokio tasks are caught by the runtime; the hook recorded them
                    let task_panic = crate::panics::take_last();
                    r.err().or(task_panic)
                })
                .expect("spawn receiver thread");
            h.join().unwrap_or(None)
        });
        if let Some(p) = panic {
            if crate::panics::in_real_code(&p) {
                ctx.violate("C02", "panic", &p.discriminator(), format!("panic while a corrupted message was processed: {}", p.describe()));
            } else {
                panic!("harness error: {}", p.describe());
            }
        }
    }
    fn watchdog_s(&self) -> u64 {
        60
    }
}

// ---- building bodies ----

fn nesting(kind: &str, depth: usize) -> Vec<u8> {
    let mut b = Vec::new();
    match kind {
        // DataValue{value: Variant(DataValue{value: Variant(...)})}: mask 0x01 (has value), variant type 23
        "nest_datavalue_variant" => {
            for _ in 0..depth {
                b.push(0x01);
                b.push(23);
            }
            b.push(0x00);
        }
        // DataValue{value: Variant(Variant(Variant(...)))}: variant type 24
        "nest_variant_variant" => {
            b.push(0x01);
            for _ in 0..depth {
                b.push(24);
            }
            b.push(0x00);
        }
        // DataValue{value: Variant(DiagnosticInfo{inner: DiagnosticInfo{...}})}: type 25, mask 0x40
        "nest_diagnostic_info" => {
            b.push(0x01);
            b.push(25);
            for _ in 0..depth {
                b.push(0x40);
            }
            b.push(0x00);
        }
        // DataValue{value: Variant(ExtensionObject{ body: bytes that are an ExtensionObject ... })}
        // (an unknown type id with a byte-string body: nesting is only by containment of bytes)
        "nest_extension_object" => {
            b.push(0x01);
            b.push(22);
            // node id two-byte form ns=0 i=1, encoding 1 (byte string), length placeholder -> fixed below
            let mut inner: Vec<u8> = vec![0x00, 0x00, 0x00];
            for _ in 0..depth.min(20_000) {
                let mut outer = vec![0x00, 0x01, 0x01];
                outer.extend_from_slice(&(inner.len() as u32).to_le_bytes());
                outer.extend_from_slice(&inner);
                inner = outer;
                if inner.len() > 250_000 {
                    break;
                }
            }
            b.extend_from_slice(&inner);
        }
        // DataValue{value: Variant(Byte array)} one element longer than max_array_length (= depth)
        "over_limit_array" => {
            b.push(0x01);
            b.push(3 | 0x80);
            b.extend_from_slice(&((depth + 1) as i32).to_le_bytes());
            b.extend(std::iter::repeat(7u8).take(depth + 1));
        }
        // DataValue{value: Variant(String)} one byte longer than max_string_length (= depth)
        "over_limit_string" => {
            b.push(0x01);
            b.push(12);
            b.extend_from_slice(&((depth + 1) as i32).to_le_bytes());
            b.extend(std::iter::repeat(b'a').take(depth + 1));
        }
        // DataValue{value: Variant(Int32 array with dimensions)} whose dimensions are hostile:
        // `depth` selects the pattern
        "array_dimensions" => {
            b.push(0x01);
            b.push(6 | 0x80 | 0x40);
            let (len, dims): (i32, Vec<u32>) = match depth % 8 {
                0 => (1, vec![65536, 65536]),
                1 => (2, vec![0x8000_0001, 2]),
                2 => (1, vec![0, 0]),
                3 => (1, vec![0xFFFF_FFFF]),
                4 => (2, vec![1, 2, 0xFFFF_FFFF, 0xFFFF_FFFF]),
                5 => (0, vec![0x7FFF_FFFF, 0x7FFF_FFFF, 4]),
                6 => (-1, vec![2]),
                _ => (2, vec![1, 3]),
            };
            b.extend_from_slice(&len.to_le_bytes());
            for i in 0..len.max(0) {
                b.extend_from_slice(&i.to_le_bytes());
            }
            b.extend_from_slice(&(dims.len() as i32).to_le_bytes());
            for d in dims {
                b.extend_from_slice(&d.to_le_bytes());
            }
        }
        // Variant array (type Variant, array bit) of one element that is again such an array
        _ => {
            b.push(0x01);
            for _ in 0..depth {
                b.push(24 | 0x80);
                b.extend_from_slice(&1u32.to_le_bytes());
            }
            b.push(0x00);
        }
    }
    b
}

fn encode_to_vec<T: BinaryEncoder<T>>(v: &T) -> Vec<u8> {
    let mut b = Vec::new();
    let _ = v.encode(&mut b);
    b
}

fn type_id(id: ObjectId) -> Vec<u8> {
    encode_to_vec(&NodeId::from(&id))
}

/// Body of a hand-assembled message whose last decoded field is a DataValue given as raw bytes.
fn hand_built(carrier: &str, hdr: &RequestHeader, resp_handle: u32, value_bytes: &[u8]) -> Vec<u8> {
    let mut b = Vec::new();
    match carrier {
        "write" => {
            b.extend(type_id(ObjectId::WriteRequest_Encoding_DefaultBinary));
            b.extend(encode_to_vec(hdr));
            b.extend_from_slice(&1i32.to_le_bytes());
            b.extend(encode_to_vec(&NodeId::new(2, "v0")));
            b.extend_from_slice(&13u32.to_le_bytes());
            b.extend(encode_to_vec(&UAString::null()));
            b.extend_from_slice(value_bytes);
        }
        "call" => {
            b.extend(type_id(ObjectId::CallRequest_Encoding_DefaultBinary));
            b.extend(encode_to_vec(hdr));
            b.extend_from_slice(&1i32.to_le_bytes());
            b.extend(encode_to_vec(&NodeId::from(&ObjectId::Server)));
            b.extend(encode_to_vec(&NodeId::from(&MethodId::Server_GetMonitoredItems)));
            b.extend_from_slice(&1i32.to_le_bytes());
            // the argument is a Variant: skip the DataValue mask byte of value_bytes
            b.extend_from_slice(&value_bytes[1.min(value_bytes.len())..]);
        }
        "create_items" => {
            b.extend(type_id(ObjectId::CreateMonitoredItemsRequest_Encoding_DefaultBinary));
            b.extend(encode_to_vec(hdr));
            b.extend_from_slice(&1u32.to_le_bytes());
            b.extend_from_slice(&2u32.to_le_bytes());
            b.extend_from_slice(&1i32.to_le_bytes());
            b.extend(encode_to_vec(&ReadValueId { node_id: NodeId::new(2, "v0"), attribute_id: 13, index_range: UAString::null(), data_encoding: QualifiedName::null() }));
            b.extend_from_slice(&2u32.to_le_bytes());
            b.extend_from_slice(&1u32.to_le_bytes());
            b.extend_from_slice(&100f64.to_le_bytes());
            // filter: ExtensionObject with the DataChangeFilter id and a byte-string body made of the nesting
            b.extend(encode_to_vec(&NodeId::from(&ObjectId::DataChangeFilter_Encoding_DefaultBinary)));
            b.push(0x01);
            b.extend_from_slice(&(value_bytes.len() as u32).to_le_bytes());
            b.extend_from_slice(value_bytes);
            b.extend_from_slice(&1u32.to_le_bytes());
            b.push(1);
        }
        "fault_diag" => {
            // ServiceFault whose response header carries the nesting as service diagnostics
            b.extend(type_id(ObjectId::ServiceFault_Encoding_DefaultBinary));
            b.extend(encode_to_vec(&DateTime::from(crate::hooks::utc_now())));
            b.extend_from_slice(&resp_handle.to_le_bytes());
            b.extend_from_slice(&StatusCode::BadInternalError.bits().to_le_bytes());
            // service_diagnostics: DiagnosticInfo = the tail of a "nest_diagnostic_info" value
            if value_bytes.len() > 2 && value_bytes[1] == 25 {
                b.extend_from_slice(&value_bytes[2..]);
            } else {
                b.push(0x00);
            }
            b.extend_from_slice(&(-1i32).to_le_bytes());
            b.extend(encode_to_vec(&ExtensionObject::null()));
        }
        _ => {
            // ReadResponse with one result
            b.extend(type_id(ObjectId::ReadResponse_Encoding_DefaultBinary));
            b.extend(encode_to_vec(&rawsrv::good_header(resp_handle)));
            b.extend_from_slice(&1i32.to_le_bytes());
            b.extend_from_slice(value_bytes);
            b.extend_from_slice(&(-1i32).to_le_bytes());
        }
    }
    b
}

/// Apply the byte-level mutations of a step to a message body. Returns the kinds applied.
fn mutate(body: &mut Vec<u8>, muts: &[Value], ctx: &mut Ctx) -> Vec<String> {
    let mut applied = Vec::new();
    for m in muts {
        let kind = m["m"].as_str().unwrap_or("");
        if body.len() < 8 {
            break;
        }
        // keep the 4-byte type id intact unless the mutation is a type swap
        let pos = 4 + (m["at"].as_u64().unwrap_or(0) as usize) % (body.len() - 4);
        match kind {
            "bit_flip" => body[pos] ^= 1 << (m["bit"].as_u64().unwrap_or(0) % 8),
            "byte_overwrite" => body[pos] = m["val"].as_u64().unwrap_or(0) as u8,
            "length_overwrite" => {
                let v = (m["val"].as_u64().unwrap_or(0) as u32).to_le_bytes();
                for (i, x) in v.iter().enumerate() {
                    if pos + i < body.len() {
                        body[pos + i] = *x;
                    }
                }
            }
            "truncate" => body.truncate(pos.max(5)),
            "type_id_swap" => {
                let id = m["val"].as_u64().unwrap_or(0) as u16;
                body[0] = 0x01;
                body[1] = 0x00;
                body[2..4].copy_from_slice(&id.to_le_bytes());
            }
            k if k.starts_with("nest_") && m.get("at").is_some() => {
                let n = nesting(k, m["depth"].as_u64().unwrap_or(3) as usize);
                let room = 300_000usize.saturating_sub(body.len());
                let n = &n[..n.len().min(room)];
                let tail = body.split_off(pos);
                body.extend_from_slice(n);
                body.extend_from_slice(&tail);
            }
            _ => continue,
        }
        ctx.fault(kind);
        applied.push(kind.to_string());
    }
    applied
}

/// Split a raw body into chunks with the real chunk builder (policy None) and return wire bytes.
fn chunks_of(chan: &opcua::core::comms::secure_channel::SecureChannel, first_seq: u32, request_id: u32, body: &[u8], chunk_body: usize) -> Vec<Vec<u8>> {
    let mut out = Vec::new();
    let parts: Vec<&[u8]> = if body.is_empty() { vec![body] } else { body.chunks(chunk_body).collect() };
    let n = parts.len();
    for (i, p) in parts.iter().enumerate() {
        let fin = if i + 1 == n { MessageIsFinalType::Final } else { MessageIsFinalType::Intermediate };
        if let Ok(c) = MessageChunk::new(first_seq + i as u32, request_id, MessageChunkType::Message, fin, chan, p) {
            out.push(c.data);
        }
    }
    out
}

/// Tiny frames handed to the chunk / frame decoders directly: every type x final flag x declared
/// size 0..=24 x actual length.
fn direct_headers(ctx: &mut Ctx) {
    use opcua::core::comms::tcp_codec::TcpCodec;
    use tokio_util::codec::Decoder;
    ctx.fault("direct_headers");
    let opts = DecodingOptions::default();
    for ty in [b"MSG", b"OPN", b"CLO", b"HEL", b"ACK", b"ERR", b"XYZ"] {
        for fin in [b'F', b'C', b'A', b'X'] {
            for declared in 0u32..=24 {
                for actual in [declared as usize, 8, 12, 16, 24] {
                    let mut bytes = Vec::new();
                    bytes.extend_from_slice(ty);
                    bytes.push(fin);
                    bytes.extend_from_slice(&declared.to_le_bytes());
                    while bytes.len() < actual.max(8) {
                        bytes.push(1);
                    }
                    let b2 = bytes.clone();
                    let o2 = opts.clone();
                    let r = crate::panics::catch(move || {
                        let _ = MessageChunk::decode(&mut std::io::Cursor::new(&b2[..]), &o2);
                        let mut codec = TcpCodec::new(o2.clone());
                        let mut buf = bytes::BytesMut::from(&b2[..]);
                        let _ = codec.decode(&mut buf);
                    });
                    if let Err(p) = r {
                        if crate::panics::in_real_code(&p) {
                            ctx.violate("C02", "panic", &p.discriminator(), format!("decoding the {} bytes {:02x?} as a chunk / frame panicked: {}", bytes.len(), &bytes[..bytes.len().min(16)], p.describe()));
                            return;
                        }
                        panic!("harness error: {}", p.describe());
                    }
                }
            }
        }
    }
    ctx.nontrivial = true;
    ctx.log("direct_headers", "");
}

fn spec_for(limits: &str, rng: &mut Rng) -> ServerSpec {
    let mut spec = ServerSpec::default();
    match limits {
        "minimal" => {
            spec.max_array_length = 8192;
            spec.max_string_length = 8192;
        }
        "small" => {
            spec.max_array_length = *rng.pick(&[1usize, 10, 100]);
            spec.max_string_length = *rng.pick(&[16usize, 256, 4096]);
            spec.max_message_size = *rng.pick(&[65536usize, 131072]);
        }
        _ => {}
    }
    spec
}

async fn run_to_server(plan: &Value, ctx: &mut Ctx) {
    crate::hooks::follow_tokio();
    let mut lrng = Rng::new(plan["tseed"].as_u64().unwrap_or(1) ^ 0x51);
    let spec = spec_for(plan["limits"].as_str().unwrap_or("default"), &mut lrng);
    let max_msg = if spec.max_message_size > 0 { spec.max_message_size } else { 327_675 };
    let server = l2::build_server(&spec);
    {
        use opcua::server::address_space::variable::VariableBuilder;
        let aspace = server.address_space();
        let mut a = aspace.write();
        let ns = a.register_namespace("urn:sim:swarm").unwrap_or(2);
        let v = NodeId::new(ns, "v0");
        VariableBuilder::new(&v, "v0", "v0").data_type(DataTypeId::Int32).value(0i32).organized_by(ObjectId::ObjectsFolder).writable().insert(&mut a);
    }
    let policy = opcua::crypto::SecurityPolicy::None;
    let mode = MessageSecurityMode::None;
    let mut port = 55000u16;
    let mut c = Conn::connect(&server, 100.0, 1 << 22, port);
    if !c.handshake(policy, mode, 2048).await {
        ctx.log("handshake-failed", "");
        return;
    }
    let steps = plan["steps"].as_array().cloned().unwrap_or_default();
    for (i, s) in steps.iter().enumerate() {
        ctx.step(i);
        if !c.is_open() {
            port += 1;
            c = Conn::connect(&server, 100.0, 1 << 22, port);
            if !c.handshake(policy, mode, 2048).await {
                ctx.violate("C02", "not-serving-afterwards", "", "after a corrupted message the server no longer completes HEL / OPN / CreateSession / ActivateSession on a fresh connection".to_string());
                return;
            }
        }
        let carrier = s["carrier"].as_str().unwrap_or("read").to_string();
        let muts = s["muts"].as_array().cloned().unwrap_or_default();
        if carrier == "direct_headers" {
            direct_headers(ctx);
            continue;
        }
        let mut rng = Rng::new(s["rseed"].as_u64().unwrap_or(1));
        let hdr = c.header();
        let mut depth_over_limit = false;
        let mut body: Vec<u8> = if matches!(carrier.as_str(), "write" | "call" | "create_items") {
            let first = muts.first().cloned().unwrap_or(json!({}));
            let kind = first["m"].as_str().unwrap_or("nest_datavalue_variant");
            let mut depth = first["depth"].as_u64().unwrap_or(3) as usize;
            ctx.fault(kind);
            // a value one element / byte over the configured limit must be refused as well
            if kind == "over_limit_array" {
                depth = if spec.max_array_length > 0 { spec.max_array_length } else { 1000 };
            } else if kind == "over_limit_string" {
                depth = if spec.max_string_length > 0 { spec.max_string_length } else { 65535 };
            }
            // depth beyond the gauge (10) must be refused for the recursive kinds
            depth_over_limit = (depth > 12 && matches!(kind, "nest_datavalue_variant" | "nest_variant_variant" | "nest_diagnostic_info" | "nest_array_of_arrays")) || kind.starts_with("over_limit_");
            let mut n = nesting(kind, depth);
            n.truncate(max_msg.saturating_sub(400).min(300_000));
            hand_built(&carrier, &hdr, 0, &n)
        } else {
            let req = {
                let mut g = G { r: &mut rng, ns: 2, subs: vec![1], items: vec![1], cps: Vec::new(), client_sig: SignatureData::null() };
                g.request(&carrier, hdr)
            };
            let mut b = Vec::new();
            let _ = req.node_id().encode(&mut b);
            let _ = req.encode(&mut b);
            b
        };
        let rest: Vec<Value> = muts.iter().filter(|m| !(matches!(carrier.as_str(), "write" | "call" | "create_items") && m.get("at").is_none() && m["m"].as_str().unwrap_or("").starts_with("nest_"))).cloned().collect();
        let applied = mutate(&mut body, &rest, ctx);
        if !applied.is_empty() || depth_over_limit || matches!(carrier.as_str(), "write" | "call" | "create_items") {
            ctx.nontrivial = true;
        }
        let req_id = c.next_req;
        c.next_req += 1;
        let wire = chunks_of(&c.chan, c.next_seq, req_id, &body, 65535 - 64);
        c.next_seq += wire.len() as u32;
        let base = reset_peak();
        let mut sent = true;
        for w in wire.iter() {
            if !c.send_bytes(w).await {
                sent = false;
                break;
            }
        }
        let r = if sent { c.recv_for(req_id, Duration::from_millis(if carrier == "publish" { 250 } else { 2000 })).await } else { Recv::Eof };
        let peak = peak_above(base);
        ctx.probe(match peak {
            p if p <= 1 << 20 => "peak_alloc_le_1MiB",
            p if p <= 8 << 20 => "peak_alloc_le_8MiB",
            p if p <= 32 << 20 => "peak_alloc_le_32MiB",
            _ => "peak_alloc_gt_32MiB",
        });
        let outcome = l2::recv_kind(&r);
        let class = if outcome.starts_with("Fault") { "Fault".to_string() } else { outcome.clone() };
        ctx.log(&format!("{}[{}]>{}", carrier, applied.join(","), class), &format!("{} bytes", body.len()));
        if peak > allocation_bound(max_msg) {
            ctx.violate("C02", "over-allocation", &carrier, format!("processing one corrupted {} message of {} bytes made the process allocate {} KiB (bound {} KiB for a maximum message size of {})", carrier, body.len(), peak / 1024, allocation_bound(max_msg) / 1024, max_msg));
        }
        // (only when the nesting is decoded as part of the message itself and nothing else cut it short)
        if depth_over_limit && applied.is_empty() && matches!(carrier.as_str(), "write" | "call") {
            let accepted = matches!(&r, Recv::Msg(_, m) if l2::response_status(m).is_good());
            if accepted {
                ctx.violate("C02", "deep-nesting-accepted", &carrier, format!("a {} message nested beyond the decoding depth, or carrying a value one over the configured length limit, was answered with {}", carrier, outcome));
            }
        }
    }
    // still serving?
    port += 1;
    let mut c2 = Conn::connect(&server, 100.0, 1 << 22, port);
    if !c2.handshake(policy, mode, 2048).await {
        ctx.violate("C02", "not-serving-afterwards", "", "after the corrupted messages the server no longer completes a handshake on a fresh connection".to_string());
    }
    ctx.advance(10_000 * steps.len() as u64);
}

async fn run_to_client(plan: &Value, ctx: &mut Ctx) {
    use opcua::client::transport::tcp::TransportConfiguration;
    use opcua::client::transport::{AsyncSecureChannel, TransportPollResult};
    crate::hooks::follow_tokio();
    ctx.fault("server_to_client");
    let acceptor = rawsrv::install_connector(1 << 22);
    let opts = match plan["limits"].as_str().unwrap_or("default") {
        "minimal" => DecodingOptions::minimal(),
        "small" => DecodingOptions { max_array_length: 10, max_string_length: 256, ..Default::default() },
        _ => DecodingOptions::default(),
    };
    let max_msg = 1 << 22;
    let steps = plan["steps"].as_array().cloned().unwrap_or_default();
    for (i, s) in steps.iter().enumerate() {
        ctx.step(i);
        // one connection per message: an undecodable response legitimately closes the transport
        let channel = std::sync::Arc::new(AsyncSecureChannel::new(
            crate::wire::empty_store(),
            super::c35_client::none_endpoint().into(),
            opcua::client::retry::SessionRetryPolicy::default(),
            opts.clone(),
            false,
            Default::default(),
            TransportConfiguration { max_pending_incoming: 0, max_inflight: 4, send_buffer_size: 65536, recv_buffer_size: 65536, max_message_size: max_msg, max_chunk_count: 64 },
        ));
        let acc2 = acceptor.clone();
        let srv_task = tokio::spawn(async move {
            let io = acc2.accept(Duration::from_secs(5)).await?;
            let mut srv = RawServer::new(io, 78);
            if srv.handshake(3_600_000).await {
                Some(srv)
            } else {
                None
            }
        });
        let mut event_loop = match channel.connect_no_retry().await {
            Ok(e) => e,
            Err(_) => {
                ctx.violate("C02", "not-serving-afterwards", "client", "the client can no longer open a channel".to_string());
                return;
            }
        };
        let Ok(Some(mut srv)) = srv_task.await else { return };
        let el = tokio::spawn(async move {
            loop {
                if let TransportPollResult::Closed(_) = event_loop.poll().await {
                    break;
                }
            }
        });
        let ch = channel.clone();
        let call = tokio::spawn(async move {
            let req = ReadRequest {
                request_header: crate::wire::request_header(7),
                max_age: 0.0,
                timestamps_to_return: TimestampsToReturn::Neither,
                nodes_to_read: Some(vec![ReadValueId { node_id: NodeId::new(2, "v0"), attribute_id: 13, index_range: UAString::null(), data_encoding: QualifiedName::null() }]),
            };
            ch.send(req, Duration::from_millis(500)).await
        });
        let carrier = s["carrier"].as_str().unwrap_or("read_response").to_string();
        let muts = s["muts"].as_array().cloned().unwrap_or_default();
        let mut outcome = "no-request".to_string();
        if let SrvRecv::Msg { request_id, .. } = srv.recv(Duration::from_secs(1)).await {
            let first = muts.first().cloned().unwrap_or(json!({}));
            let kind = first["m"].as_str().unwrap_or("nest_datavalue_variant");
            let depth = first["depth"].as_u64().unwrap_or(3) as usize;
            ctx.fault(kind);
            let mut n = nesting(kind, depth);
            n.truncate(300_000);
            let mut body = hand_built(&carrier, &crate::wire::request_header(0), 7, &n);
            let rest: Vec<Value> = muts.iter().skip(1).cloned().collect();
            let applied = mutate(&mut body, &rest, ctx);
            ctx.nontrivial = true;
            let wire = chunks_of(&srv.chan, srv.next_seq, request_id, &body, 65535 - 64);
            srv.next_seq += wire.len() as u32;
            let base = reset_peak();
            for w in wire.iter() {
                if !srv.send_bytes(w).await {
                    break;
                }
            }
            let r = call.await;
            let peak = peak_above(base);
            ctx.probe(match peak {
                p if p <= 1 << 20 => "peak_alloc_le_1MiB",
                p if p <= 8 << 20 => "peak_alloc_le_8MiB",
                p if p <= 32 << 20 => "peak_alloc_le_32MiB",
                _ => "peak_alloc_gt_32MiB",
            });
            outcome = match &r {
                Ok(Ok(m)) => l2::msg_kind(m),
                Ok(Err(e)) => e.name().to_string(),
                Err(_) => "client-task-panicked".to_string(),
            };
            if peak > allocation_bound(327_675) {
                ctx.violate("C02", "over-allocation", "client", format!("processing one corrupted {} of {} bytes made the process allocate {} KiB", carrier, body.len(), peak / 1024));
            }
            let deep = depth > 12 && matches!(kind, "nest_datavalue_variant" | "nest_variant_variant" | "nest_diagnostic_info" | "nest_array_of_arrays") && applied.is_empty();
            if deep && matches!(&r, Ok(Ok(SupportedMessage::ReadResponse(_)))) {
                ctx.violate("C02", "deep-nesting-accepted", "client", format!("the client accepted a {} nested {} levels deep", carrier, depth));
            }
        }
        ctx.log(&format!("to-client {}>{}", carrier, outcome), "");
        el.abort();
    }
    ctx.advance(10_000 * steps.len() as u64);
}
