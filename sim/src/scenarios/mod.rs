use crate::framework::Scenario;

pub mod c02_decode;
pub mod c10_memory;
pub mod c11_framing;
pub mod c12_sequence;
pub mod c14_renewal;
pub mod c15_handshake;
pub mod c18_trust;
pub mod c30_browse;
pub mod c32_attributes;
pub mod c33_swarm;
pub mod c35_client;
pub mod c36_acks;
pub mod c38_locks;
pub mod nm_family;
pub mod sess_family;
pub mod subs_family;
pub mod wire_family;

pub fn all() -> Vec<Box<dyn Scenario>> {
    let mut v: Vec<Box<dyn Scenario>> = vec![Box::new(c11_framing::C11), Box::new(c15_handshake::C15)];
    for id in ["C21", "C22", "C24", "C25", "C26", "C27", "C40"] {
        v.push(Box::new(subs_family::Subs { id }));
    }
    for id in ["C28", "C29", "C34"] {
        v.push(Box::new(nm_family::Nm { id }));
    }
    for id in ["C19", "C20"] {
        v.push(Box::new(sess_family::Sess { id }));
    }
    for id in ["C07", "C08", "C09"] {
        v.push(Box::new(wire_family::Wire { id }));
    }
    v.push(Box::new(c02_decode::C02));
    v.push(Box::new(c10_memory::C10));
    v.push(Box::new(c12_sequence::C12));
    v.push(Box::new(c14_renewal::C14));
    v.push(Box::new(c18_trust::C18));
    v.push(Box::new(c30_browse::C30));
    v.push(Box::new(c32_attributes::C32));
    v.push(Box::new(c33_swarm::C33));
    v.push(Box::new(c35_client::C35));
    v.push(Box::new(c36_acks::C36));
    v.push(Box::new(c38_locks::C38));
    v
}
