use crate::framework::Scenario;

pub mod c11_framing;
pub mod c15_handshake;

pub fn all() -> Vec<Box<dyn Scenario>> {
    vec![Box::new(c11_framing::C11), Box::new(c15_handshake::C15)]
}
