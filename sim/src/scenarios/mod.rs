use crate::framework::Scenario;

pub mod c11_framing;

pub fn all() -> Vec<Box<dyn Scenario>> {
    vec![Box::new(c11_framing::C11)]
}
