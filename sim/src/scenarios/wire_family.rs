//! Wire family (L1): C07 (messages survive chunking + channel security), C08 (modified or foreign
//! secured chunks are never accepted), C09 (receive path is total on arbitrary peer bytes), C12
//! (sequence numbers / replay).

use crate::ctx::Ctx;
use crate::framework::{Info, Scenario, Tier};
use crate::pipe::{self, Delivered, Receiver};
use crate::rng::Rng;
use crate::wire::{self, Pair};
use opcua::crypto::KeySize;
use opcua::client::transport::buffer::SendBuffer;
use opcua::core::comms::chunker::Chunker;
use opcua::core::comms::message_chunk::{MessageChunk, MessageChunkType, MessageIsFinalType};
use opcua::core::comms::message_writer::MessageWriter;
use opcua::core::comms::secure_channel::SecureChannel;
use opcua::core::supported_message::SupportedMessage;
use opcua::crypto::SecurityPolicy;
use opcua::types::*;
use serde_json::{json, Value};

pub struct Wire {
    pub id: &'static str,
}

fn valid_bits(p: SecurityPolicy) -> Vec<u32> {
    match p {
        SecurityPolicy::None => vec![2048],
        SecurityPolicy::Basic128Rsa15 | SecurityPolicy::Basic256 => vec![1024, 2048],
        _ => vec![2048, 3072, 4096],
    }
}

/// All (policy, mode, bits) combinations.
fn security_grid(with_4096: bool) -> Vec<(SecurityPolicy, MessageSecurityMode, u32)> {
    let mut v = Vec::new();
    for p in wire::POLICIES.iter() {
        if *p == SecurityPolicy::None {
            v.push((*p, MessageSecurityMode::None, 2048));
            continue;
        }
        for m in [MessageSecurityMode::Sign, MessageSecurityMode::SignAndEncrypt] {
            for b in valid_bits(*p) {
                if b > 2048 && !with_4096 {
                    continue;
                }
                v.push((*p, m, b));
            }
        }
    }
    v
}

fn make_pair(plan: &Value) -> Pair {
    let policy = wire::policy_by_name(plan["policy"].as_str().unwrap_or("None"));
    let mode = wire::mode_by_name(plan["mode"].as_str().unwrap_or("None"));
    wire::channel_pair(policy, mode, plan["bits"].as_u64().unwrap_or(2048) as u32, plan["nseed"].as_u64().unwrap_or(1), 7, 3)
}

fn body_capacity(chan: &SecureChannel, chunk_size: usize) -> usize {
    if chunk_size == 0 {
        return 1 << 20;
    }
    MessageChunk::body_size_from_message_size(MessageChunkType::Message, chan, chunk_size).unwrap_or(4000)
}

fn make_message(kind: &str, dir: &str, handle: u32, size: usize, rng: &mut Rng, chan: &mut SecureChannel) -> SupportedMessage {
    match (kind, dir) {
        ("opn", "c2s") => {
            let nonce = chan.security_policy().random_nonce();
            OpenSecureChannelRequest {
                request_header: wire::request_header(handle),
                client_protocol_version: 0,
                request_type: SecurityTokenRequestType::Issue,
                security_mode: chan.security_mode(),
                client_nonce: nonce,
                requested_lifetime: 60_000,
            }
            .into()
        }
        ("opn", _) => OpenSecureChannelResponse {
            response_header: ResponseHeader::new_good(&wire::request_header(handle)),
            server_protocol_version: 0,
            security_token: ChannelSecurityToken {
                channel_id: 7,
                token_id: 3,
                created_at: DateTime::from(crate::hooks::utc_now()),
                revised_lifetime: 60_000,
            },
            server_nonce: chan.security_policy().random_nonce(),
        }
        .into(),
        (_, "c2s") => wire::sized_read_request(handle, size, rng).into(),
        _ => pipe::sized_read_response(handle, size, rng).into(),
    }
}

// ------------------------------------------------------------------------------------------
// C07

fn c07_sizes(cap: usize) -> Vec<(usize, &'static str)> {
    // body sizes chosen so that the message spans 1, 2, 3 and 7 chunks with the last chunk 1 byte,
    // exactly full and 1 byte short (approximately: message size = body + type node id)
    let mut v = vec![(100, "small")];
    for k in [1usize, 2, 3, 7] {
        v.push((k * cap - 8, "last-full-ish"));
        v.push((k * cap, "boundary"));
        v.push((k * cap + 2, "last-tiny"));
    }
    v
}

fn gen_c07(seed: u64, run: u64, tier: Tier) -> Value {
    let grid = security_grid(tier == Tier::Thorough);
    let chunk_sizes: [usize; 5] = [8196, 8197, 9001, 16384, 65536];
    let n_enum = grid.len() as u64 * chunk_sizes.len() as u64 * 2;
    let mut rng = Rng::new(crate::framework::run_seed(seed, "C07", run));
    let (g, cs, dir) = if run < n_enum {
        let gi = (run / (chunk_sizes.len() as u64 * 2)) as usize;
        let ci = ((run / 2) % chunk_sizes.len() as u64) as usize;
        (grid[gi], chunk_sizes[ci], if run % 2 == 0 { "c2s" } else { "s2c" })
    } else {
        (*rng.pick(&grid), *rng.pick(&[8196usize, 8196, 8200, 8333, 9001, 12000, 16384, 65536]), if rng.chance(0.6) { "c2s" } else { "s2c" })
    };
    let mut steps = Vec::new();
    if run < n_enum {
        // boundary sizes for this configuration (computed at execution from the real body capacity)
        for k in 0..13 {
            steps.push(json!({"kind": "msg", "size_class": k}));
        }
        steps.push(json!({"kind": "opn"}));
    } else {
        for _ in 0..rng.urange(1, 6) {
            if rng.chance(0.15) {
                steps.push(json!({"kind": "opn"}));
            } else {
                steps.push(json!({"kind": "msg", "size": rng.urange(60, 60_000)}));
            }
        }
    }
    json!({"policy": wire::policy_name(g.0), "mode": wire::mode_name(g.1), "bits": g.2, "chunk": cs, "dir": dir, "nseed": rng.next_u64() >> 12, "steps": steps})
}

fn exec_c07(plan: &Value, ctx: &mut Ctx) {
    let mut pair = make_pair(plan);
    let dir = plan["dir"].as_str().unwrap_or("c2s").to_string();
    let chunk = plan["chunk"].as_u64().unwrap_or(8196) as usize;
    let mut sb = SendBuffer::new(chunk, 0, 0);
    let mut mw = MessageWriter::new(chunk, 0, 0);
    let (recv_chan, mut send_chan) = if dir == "c2s" { (pair.server, pair.client) } else { (pair.client, pair.server) };
    let mut receiver = Receiver::new(recv_chan);
    let cap = body_capacity(&send_chan, chunk);
    let sizes = c07_sizes(cap);
    let steps = plan["steps"].as_array().cloned().unwrap_or_default();
    let secured = send_chan.security_policy() != SecurityPolicy::None;
    for (i, s) in steps.iter().enumerate() {
        ctx.step(i);
        let kind = s["kind"].as_str().unwrap_or("msg");
        let size = match s["size_class"].as_u64() {
            Some(k) => sizes[(k as usize) % sizes.len()].0,
            None => s["size"].as_u64().unwrap_or(100) as usize,
        };
        let mut mrng = Rng::new(size as u64 * 31 + i as u64);
        let msg = make_message(kind, &dir, i as u32 + 1, size, &mut mrng, &mut send_chan);
        let req_id = 100 + i as u32;
        let before_metas = receiver.metas.len();
        let wire_chunks: Result<Vec<Vec<u8>>, StatusCode> = if dir == "c2s" {
            pipe::send_via_send_buffer(&mut sb, &send_chan, req_id, msg.clone())
        } else {
            pipe::send_via_message_writer(&mut mw, &send_chan, req_id, msg.clone()).map(|b| vec![b])
        };
        let wire_chunks = match wire_chunks {
            Ok(w) => w,
            Err(e) => {
                // the sender may refuse (e.g. message does not fit the negotiated limits); that is not a corruption
                ctx.log(&format!("{}:{}>sender-refused", kind, dir), e.name());
                sb = SendBuffer::new(chunk, 0, 0);
                continue;
            }
        };
        if wire_chunks.len() > 1 {
            ctx.probe("multi_chunk_message");
            if secured {
                ctx.probe("multi_chunk_secured");
            }
            ctx.nontrivial = true;
        }
        if secured {
            ctx.nontrivial = true;
        }
        let mut delivered: Vec<Delivered> = Vec::new();
        for w in wire_chunks.iter() {
            if dir == "s2c" && wire_chunks.len() == 1 {
                // the message writer hands all chunks over as one buffer: split it into frames
            }
            if chunk > 0 && dir == "c2s" && w.len() > chunk {
                ctx.violate("C07", "chunk-exceeds-negotiated-size", "", format!("secured chunk of {} bytes exceeds the negotiated chunk size {}", w.len(), chunk));
            }
            delivered.extend(receiver.feed(w));
        }
        // chunk header clauses
        let metas = &receiver.metas[before_metas..];
        for m in metas.iter() {
            if dir == "s2c" && chunk >= 8196 && m.wire_len > chunk {
                ctx.violate("C07", "chunk-exceeds-negotiated-size", "server", format!("server wrote a chunk of {} bytes, the negotiated send buffer / chunk size is {}", m.wire_len, chunk));
            }
        }
        if metas.len() > 1 {
            ctx.probe("multi_chunk_message");
            if secured {
                ctx.probe("multi_chunk_secured");
            }
        }
        for (k, m) in metas.iter().enumerate() {
            if k > 0 && m.seq != metas[k - 1].seq + 1 {
                ctx.violate("C07", "sequence-numbers-not-consecutive", "", format!("chunk {} has sequence number {} after {}", k, m.seq, metas[k - 1].seq));
            }
            if m.req != req_id {
                ctx.violate("C07", "request-id-differs", "", format!("chunk {} carries request id {} instead of {}", k, m.req, req_id));
            }
            let last = k + 1 == metas.len();
            if (m.is_final == MessageIsFinalType::Final) != last {
                ctx.violate("C07", "final-flag-misplaced", "", format!("chunk {} of {} has is_final={:?}", k, metas.len(), m.is_final));
            }
        }
        let outcome = match delivered.as_slice() {
            [Delivered::Message(id, m)] => {
                if *m == msg && *id == req_id {
                    "ok".to_string()
                } else {
                    let secured_multi = secured && wire_chunks.len() > 1;
                    ctx.violate(
                        "C07",
                        "message-changed",
                        &format!("{},{}", if wire_chunks.len() > 1 { "multi-chunk" } else { "single-chunk" }, if secured { wire::mode_name(send_chan.security_mode()) } else { "None" }),
                        format!(
                            "{} {} of {} body bytes in {} chunk(s) ({}, {}, chunk size {}) decoded to a different message{}",
                            dir,
                            kind,
                            size,
                            wire_chunks.len(),
                            wire::policy_name(send_chan.security_policy()),
                            wire::mode_name(send_chan.security_mode()),
                            chunk,
                            if secured_multi { " (secured multi-chunk)" } else { "" }
                        ),
                    );
                    "changed".to_string()
                }
            }
            [] => {
                ctx.violate("C07", "message-not-delivered", "", format!("{} {} of {} bytes in {} chunk(s) was not delivered", dir, kind, size, wire_chunks.len()));
                "none".to_string()
            }
            other => {
                let st = other.iter().filter_map(|d| if let Delivered::Rejected(s) = d { Some(s.name().to_string()) } else { None }).next().unwrap_or_default();
                ctx.violate(
                    "C07",
                    "message-rejected",
                    &format!("{},{}", if wire_chunks.len() > 1 { "multi-chunk" } else { "single-chunk" }, st),
                    format!("{} {} of {} bytes in {} chunk(s) ({}, {}) was rejected by the receiver: {}", dir, kind, size, wire_chunks.len(), wire::policy_name(send_chan.security_policy()), wire::mode_name(send_chan.security_mode()), st),
                );
                receiver.pending.clear();
                format!("rejected:{}", st)
            }
        };
        ctx.log(&format!("{}:{}:{}ch>{}", kind, dir, wire_chunks.len().min(9), outcome), &format!("size={}", size));
    }
    let _ = &mut pair_unused(&mut ());
    ctx.advance(steps.len() as u64);
}

fn pair_unused(_: &mut ()) {}

impl Scenario for Wire {
    fn id(&self) -> &'static str {
        self.id
    }
    fn info(&self) -> Info {
        match self.id {
            "C07" => Info {
                level: "exploration",
                exhaustive: false,
                layer: "L1 (two channel roles joined by a reliable simulated byte stream)",
                rule: "enumerated: policy x mode x key size (1024/2048, thorough: 4096) x chunk size {8196, 8197, 9001, 16384, 65536} x direction, each with 13 message sizes placed on chunk boundaries (1, 2, 3, 7 chunks; last chunk tiny / full) plus an OPN; then seeded random configurations and sizes. Oracle: decoded message == sent message; sequence numbers consecutive, one request id, final flag on the last chunk only, no secured chunk above the negotiated size. non-trivial = message was secured or multi-chunk; distinct = configuration/outcome hash.",
                real: vec!["Chunker::encode/decode/validate_chunks", "client SendBuffer", "server MessageWriter", "SecureChannel::apply_security / verify_and_remove_security", "crypto (OpenSSL RSA, AES, HMAC)", "TcpCodec"],
                stubbed: vec!["OpenSecureChannel service exchange (channel pairs are set up through the same SecureChannel setters the services call)", "socket"],
                assumptions: vec!["reliable in-order stream (faulty twin: C08/C09)"],
                fault_kinds: vec!["none (reliable channel by design)"],
            },
            "C08" => Info {
                level: "fault_enumeration",
                exhaustive: false,
                layer: "L1 (sender role -> corrupting channel -> receiver role)",
                rule: "enumerated: for every policy != None x {Sign, SignAndEncrypt} x key size x {MSG, OPN} x direction, the valid secured chunk(s) are subjected to: a flip at EVERY byte offset (all 8 single-bit masks at header offsets, one pseudo-random mask elsewhere), truncation to EVERY length, truncation with the size field patched, extension by 1..16 bytes with and without patching the size field, the same plaintext secured with keys from other nonces, with another certificate / private key, and under another token. One run = one block of 96 faults of one configuration. Oracle: the receiver delivers nothing, or only the original message from frames that are byte-identical to the originals. non-trivial = every fault (each changes the byte stream); distinct = (configuration, fault kind, outcome) hash.",
                real: vec!["SecureChannel::verify_and_remove_security (symmetric and asymmetric)", "crypto: HMAC verify, RSA verify/decrypt, AES", "TcpCodec", "Chunker::validate_chunks/decode", "sender: SendBuffer / MessageWriter / apply_security"],
                stubbed: vec!["socket", "OpenSecureChannel service exchange"],
                assumptions: vec!["quick tier: key sizes 1024/2048 and one message size; thorough adds 4096-bit keys and three message sizes (one multi-chunk)"],
                fault_kinds: vec!["flip", "truncate", "truncate_fix", "extend", "extend_fix", "extend_direct", "foreign_nonces", "foreign_cert", "old_token"],
            },
            _ => Info {
                level: "exploration",
                exhaustive: false,
                layer: "L1 (Byzantine raw peer -> receiver role in every reachable channel state)",
                rule: "run = one configuration (policy x mode x key size x {MSG, OPN, CLO-typed} x direction) and 40 structure-aware mutations of a valid chunk (header bit flips, patched length fields incl. -1 / 0 / huge, truncation below header + signature, extension, wrong chunk type, random frames) each offered to a receiver in one of four states: established keys, policy set but keys not derived, fresh channel, fresh channel with own certificate. Oracle: verify_and_remove_security and the full receive path return Ok or Err; a panic is a violation. non-trivial = every mutation; distinct = (kind, state, outcome) hash.",
                real: vec!["SecureChannel::verify_and_remove_security and everything below it", "security_header / message_chunk_info decoding", "crypto::pkey / aeskey", "TcpCodec", "Chunker"],
                stubbed: vec!["socket"],
                assumptions: vec![],
                fault_kinds: vec!["flip", "truncate_fix", "extend_fix", "patch", "swap_type", "random"],
            },
        }
    }
    fn runs(&self, tier: Tier) -> u64 {
        match self.id {
            "C07" => {
                let n = security_grid(tier == Tier::Thorough).len() as u64 * 5 * 2;
                n + if tier == Tier::Thorough { 20_000 } else { 1200 }
            }
            "C08" => c08_table(tier).last().map(|x| x.1).unwrap_or(1),
            _ => {
                if tier == Tier::Thorough {
                    60_000
                } else {
                    3000
                }
            }
        }
    }
    fn gen(&self, seed: u64, run: u64, tier: Tier) -> Value {
        match self.id {
            "C07" => gen_c07(seed, run, tier),
            "C08" => {
                let table = c08_table(tier);
                let mut start = 0u64;
                for (cfg, end) in table.iter() {
                    if run < *end {
                        let mut p = cfg.clone();
                        p["block"] = json!(run - start);
                        p["steps"] = json!([]);
                        return p;
                    }
                    start = *end;
                }
                table[0].0.clone()
            }
            _ => {
                let mut rng = Rng::new(crate::framework::run_seed(seed, "C09", run));
                // every key size in both tiers: some length checks only differ for 3072-bit keys
                let _ = tier;
                let grid = security_grid(true);
                let g = *rng.pick(&grid);
                let kind = *rng.pick(&["msg", "msg", "opn"]);
                let dir = *rng.pick(&["c2s", "s2c"]);
                let mut plan = json!({"policy": wire::policy_name(g.0), "mode": wire::mode_name(g.1), "bits": g.2, "kind": kind, "dir": dir, "size": *rng.pick(&[80usize, 300, 3000]), "chunk": 8196, "nseed": rng.next_u64() >> 12});
                // the valid chunk length is needed to place mutations
                let mut pair = make_pair(&plan);
                let first = make_valid(&plan, &mut pair).map(|v| v.chunks[0].clone()).unwrap_or_else(|| vec![0u8; 64]);
                let steps: Vec<Value> = (0..40).map(|_| c09_mutation(&mut rng, &first, kind == "opn")).collect();
                plan["steps"] = json!(steps);
                plan
            }
        }
    }
    fn exec(&self, plan: &Value, ctx: &mut Ctx) {
        match self.id {
            "C07" => exec_c07(plan, ctx),
            "C08" => exec_faulty("C08", plan, ctx),
            _ => exec_c09(plan, ctx),
        }
    }
    fn simplify(&self, plan: &Value) -> Vec<Value> {
        // C08: turn the implicit block into explicit steps so that ddmin can drop faults
        if self.id == "C08" && plan["steps"].as_array().map(|a| a.is_empty()).unwrap_or(true) {
            let mut pair = make_pair(plan);
            if let Some(v) = make_valid(plan, &mut pair) {
                let total: usize = v.chunks.iter().map(|c| c.len()).sum();
                let muts = mutations_for(total, v.chunks[0].len(), plan["block"].as_u64().unwrap_or(0), C08_BLOCK, plan["kind"] == "opn");
                let mut out = Vec::new();
                for m in muts {
                    let mut p = plan.clone();
                    p["steps"] = json!([m]);
                    out.push(p);
                }
                return out;
            }
        }
        Vec::new()
    }
    fn panic_property(&self) -> &'static str {
        "C09"
    }
}

#[allow(dead_code)]
fn unused(_: &Chunker) {}

// ------------------------------------------------------------------------------------------
// C08 / C09: faulty channel between the two roles

struct Valid {
    /// wire bytes of each chunk of one valid message
    chunks: Vec<Vec<u8>>,
    msg: SupportedMessage,
}

/// Produce the valid secured chunk(s) of one message for a configuration.
fn make_valid(plan: &Value, pair: &mut Pair) -> Option<Valid> {
    let dir = plan["dir"].as_str().unwrap_or("c2s");
    let kind = plan["kind"].as_str().unwrap_or("msg");
    let size = plan["size"].as_u64().unwrap_or(200) as usize;
    let chunk = plan["chunk"].as_u64().unwrap_or(8196) as usize;
    let mut rng = Rng::new(size as u64 + 17);
    let send_chan = if dir == "c2s" { &mut pair.client } else { &mut pair.server };
    let msg = make_message(kind, dir, 1, size, &mut rng, send_chan);
    let chunks = if dir == "c2s" {
        let mut sb = SendBuffer::new(chunk, 0, 0);
        pipe::send_via_send_buffer(&mut sb, send_chan, 100, msg.clone()).ok()?
    } else {
        let mut mw = MessageWriter::new(chunk, 0, 0);
        let all = pipe::send_via_message_writer(&mut mw, send_chan, 100, msg.clone()).ok()?;
        split_frames(&all)
    };
    Some(Valid { chunks, msg })
}

fn split_frames(all: &[u8]) -> Vec<Vec<u8>> {
    let mut out = Vec::new();
    let mut pos = 0;
    while pos + 8 <= all.len() {
        let len = u32::from_le_bytes([all[pos + 4], all[pos + 5], all[pos + 6], all[pos + 7]]) as usize;
        if len < 8 || pos + len > all.len() {
            break;
        }
        out.push(all[pos..pos + len].to_vec());
        pos += len;
    }
    if pos < all.len() {
        out.push(all[pos..].to_vec());
    }
    out
}

fn receiver_for(plan: &Value, state: &str) -> Receiver {
    // a fresh receiving channel in the requested state
    let pair = make_pair(plan);
    let dir = plan["dir"].as_str().unwrap_or("c2s");
    let chan = if dir == "c2s" { pair.server } else { pair.client };
    match state {
        "no_keys" => {
            // policy / mode / certificates known (e.g. set from an OPN header) but keys not derived yet
            let mut c = wire::bare_channel(if dir == "c2s" { opcua::core::comms::secure_channel::Role::Server } else { opcua::core::comms::secure_channel::Role::Client }, DecodingOptions::default());
            c.set_security_policy(chan.security_policy());
            c.set_security_mode(chan.security_mode());
            c.set_cert(chan.cert());
            c.set_remote_cert(chan.remote_cert());
            let bits = plan["bits"].as_u64().unwrap_or(2048) as u32;
            c.set_private_key(Some(wire::identity(bits, if dir == "c2s" { "b" } else { "a" }).key()));
            Receiver::new(c)
        }
        "fresh" => Receiver::new(wire::bare_channel(if dir == "c2s" { opcua::core::comms::secure_channel::Role::Server } else { opcua::core::comms::secure_channel::Role::Client }, DecodingOptions::default())),
        "fresh_with_cert" => {
            let mut c = wire::bare_channel(if dir == "c2s" { opcua::core::comms::secure_channel::Role::Server } else { opcua::core::comms::secure_channel::Role::Client }, DecodingOptions::default());
            let bits = plan["bits"].as_u64().unwrap_or(2048) as u32;
            let me = wire::identity(bits, if dir == "c2s" { "b" } else { "a" });
            c.set_cert(Some(me.cert.clone()));
            c.set_private_key(Some(me.key()));
            Receiver::new(c)
        }
        "awaiting_first_opn" => {
            // the client has sent its first OpenSecureChannel request: it knows the server
            // certificate from the endpoint, but no channel id or token has been issued yet
            let mut c = chan;
            c.set_secure_channel_id(0);
            c.set_token_id(0);
            Receiver::new(c)
        }
        _ => Receiver::new(chan),
    }
}

/// Apply mutation `m` to the valid chunks; returns the byte stream offered to the receiver and
/// whether the stream still starts with byte-identical original frames (then those may be delivered).
fn mutate(valid: &Valid, m: &Value, plan: &Value) -> (Vec<u8>, usize) {
    let mut stream: Vec<u8> = valid.chunks.iter().flatten().cloned().collect();
    let first_len = valid.chunks[0].len();
    let kind = m["m"].as_str().unwrap_or("flip");
    let off = m["off"].as_u64().unwrap_or(0) as usize;
    let mut intact_frames = 0usize;
    match kind {
        "flip" => {
            if off < stream.len() {
                stream[off] ^= (m["mask"].as_u64().unwrap_or(1) as u8).max(1);
            }
            // frames strictly before the flipped one are intact
            let mut pos = 0;
            for c in valid.chunks.iter() {
                if pos + c.len() <= off {
                    intact_frames += 1;
                }
                pos += c.len();
            }
        }
        "truncate" => {
            stream.truncate(off.min(stream.len()));
            let mut pos = 0;
            for c in valid.chunks.iter() {
                if pos + c.len() <= stream.len() {
                    intact_frames += 1;
                }
                pos += c.len();
            }
        }
        "truncate_fix" => {
            // cut the first frame and patch message_size so that the frame is "complete"
            let n = off.clamp(12, first_len.saturating_sub(1));
            stream.truncate(n);
            let sz = (n as u32).to_le_bytes();
            stream[4..8].copy_from_slice(&sz);
        }
        "extend" => {
            let n = m["n"].as_u64().unwrap_or(1) as usize;
            stream.extend(std::iter::repeat(0xEE).take(n));
            intact_frames = valid.chunks.len();
        }
        "extend_fix" => {
            // append bytes to the last frame and patch its message_size
            let n = m["n"].as_u64().unwrap_or(1) as usize;
            let last_start: usize = valid.chunks[..valid.chunks.len() - 1].iter().map(|c| c.len()).sum();
            stream.extend(std::iter::repeat(0xEE).take(n));
            let sz = ((stream.len() - last_start) as u32).to_le_bytes();
            stream[last_start + 4..last_start + 8].copy_from_slice(&sz);
            intact_frames = valid.chunks.len() - 1;
        }
        "foreign_nonces" | "foreign_cert" | "old_token" => {
            // the same plaintext secured by somebody else
            let mut p2 = plan.clone();
            match kind {
                "foreign_nonces" => p2["nseed"] = json!(plan["nseed"].as_u64().unwrap_or(1) ^ 0x5555),
                "old_token" => p2["nseed"] = json!(plan["nseed"].as_u64().unwrap_or(1).wrapping_add(1)),
                _ => {}
            }
            let mut pair2 = make_pair(&p2);
            if kind == "foreign_cert" {
                let bits = plan["bits"].as_u64().unwrap_or(2048) as u32;
                let c = wire::identity(bits, "c");
                let dir = plan["dir"].as_str().unwrap_or("c2s");
                let ch = if dir == "c2s" { &mut pair2.client } else { &mut pair2.server };
                ch.set_cert(Some(c.cert.clone()));
                ch.set_private_key(Some(c.key()));
            }
            if let Some(v2) = make_valid(plan, &mut pair2) {
                stream = v2.chunks.iter().flatten().cloned().collect();
            }
        }
        _ => {}
    }
    (stream, intact_frames)
}

fn mutations_for(valid_len: usize, first_len: usize, block: u64, block_size: u64, asymmetric: bool) -> Vec<Value> {
    // the enumeration: [flip every offset (header offsets: 8 single-bit masks)] ++ [truncate at every length]
    // ++ [truncate_fix] ++ [extend 1..16] ++ [extend_fix 1..16] ++ [foreign keys/cert/token]
    let mut all: Vec<Value> = Vec::new();
    let header = if asymmetric { first_len.min(200) } else { 24 };
    for off in 0..valid_len {
        if off < header {
            for b in 0..8 {
                all.push(json!({"m": "flip", "off": off, "mask": 1u64 << b}));
            }
        } else {
            all.push(json!({"m": "flip", "off": off, "mask": 1 + (off as u64 * 37) % 255}));
        }
    }
    for n in 0..valid_len {
        all.push(json!({"m": "truncate", "off": n}));
    }
    let step = if first_len > 600 { 7 } else { 1 };
    let mut n = 12;
    while n < first_len {
        all.push(json!({"m": "truncate_fix", "off": n}));
        n += step;
    }
    for n in 1..=16 {
        all.push(json!({"m": "extend", "n": n}));
        all.push(json!({"m": "extend_fix", "n": n}));
        // the same bytes handed to the secure channel directly, without the framing layer
        all.push(json!({"m": "extend_direct", "n": n}));
    }
    if asymmetric {
        // asymmetric chunks do not depend on the channel nonces; the foreign party is another certificate / key
        all.push(json!({"m": "foreign_cert"}));
        all.push(json!({"m": "foreign_cert", "state": "awaiting_first_opn"}));
    } else {
        // symmetric chunks do not depend on certificates; the foreign party has keys from other nonces
        all.push(json!({"m": "foreign_nonces"}));
        all.push(json!({"m": "old_token"}));
    }
    let start = (block * block_size) as usize;
    all.into_iter().skip(start).take(block_size as usize).collect()
}

fn c08_configs(tier: Tier) -> Vec<Value> {
    let mut v = Vec::new();
    for (p, m, b) in security_grid(tier == Tier::Thorough) {
        if p == SecurityPolicy::None {
            continue;
        }
        for kind in ["msg", "opn"] {
            for dir in ["c2s", "s2c"] {
                let sizes: Vec<usize> = if kind == "opn" { vec![0] } else if tier == Tier::Thorough { vec![120, 700, 9000] } else { vec![150] };
                for size in sizes {
                    if kind == "opn" && tier == Tier::Quick && b != 2048 && !(b == 1024 && p == SecurityPolicy::Basic128Rsa15) {
                        continue;
                    }
                    v.push(json!({"policy": wire::policy_name(p), "mode": wire::mode_name(m), "bits": b, "kind": kind, "dir": dir, "size": size, "chunk": 8196, "nseed": 77}));
                }
            }
        }
    }
    v
}

const C08_BLOCK: u64 = 96;

fn c08_blocks(cfg: &Value) -> u64 {
    // number of mutation blocks for a configuration (needs the valid chunk length)
    let mut pair = make_pair(cfg);
    match make_valid(cfg, &mut pair) {
        Some(v) => {
            let total: usize = v.chunks.iter().map(|c| c.len()).sum();
            let first = v.chunks[0].len();
            let asym = cfg["kind"] == "opn";
            let header = if asym { first.min(200) } else { 24 };
            let step = if first > 600 { 7 } else { 1 };
            let n = header * 8 + (total - header) + total + (first.saturating_sub(12) + step - 1) / step + 48 + 2;
            (n as u64 + C08_BLOCK - 1) / C08_BLOCK
        }
        None => 1,
    }
}

fn exec_faulty(id: &str, plan: &Value, ctx: &mut Ctx) {
    let mut pair = make_pair(plan);
    let valid = match make_valid(plan, &mut pair) {
        Some(v) => v,
        None => {
            ctx.log("sender-refused", "");
            return;
        }
    };
    let total: usize = valid.chunks.iter().map(|c| c.len()).sum();
    let asym = plan["kind"] == "opn";
    let muts: Vec<Value> = match plan["steps"].as_array() {
        Some(a) if !a.is_empty() => a.clone(),
        _ => mutations_for(total, valid.chunks[0].len(), plan["block"].as_u64().unwrap_or(0), C08_BLOCK, asym),
    };
    // sanity: the unmodified stream is delivered (otherwise the run tests nothing)
    {
        let mut r = receiver_for(plan, "established");
        let stream: Vec<u8> = valid.chunks.iter().flatten().cloned().collect();
        let d = r.feed(&stream);
        if !matches!(d.as_slice(), [Delivered::Message(_, m)] if *m == valid.msg) {
            ctx.log("valid-stream-not-delivered", "");
            ctx.probe("valid_stream_not_delivered");
            return;
        }
    }
    for (i, m) in muts.iter().enumerate() {
        ctx.step(i);
        if m["m"] == "extend_direct" {
            ctx.fault("extend_direct");
            let mut r = receiver_for(plan, "established");
            let mut src = valid.chunks[0].clone();
            src.extend(std::iter::repeat(0xEE).take(m["n"].as_u64().unwrap_or(1) as usize));
            let res = crate::panics::catch(|| r.chan.verify_and_remove_security(&src));
            match res {
                Ok(Ok(_)) => ctx.violate("C08", "modified-chunk-accepted", &format!("extend_direct,{}", plan["kind"].as_str().unwrap_or("")), format!("verify_and_remove_security accepted a chunk with {} bytes appended ({} {} {} bits)", m["n"], plan["policy"], plan["mode"], plan["bits"])),
                Ok(Err(_)) => {}
                Err(c) => ctx.violate("C09", "panic", &c.discriminator(), format!("{} on mutation {}", c.describe(), m)),
            }
            ctx.log("extend_direct", "");
            continue;
        }
        let (stream, intact_frames) = mutate(&valid, m, plan);
        let kind = m["m"].as_str().unwrap_or("flip");
        ctx.fault(kind);
        let state = m["state"].as_str().unwrap_or("established");
        let mut r = receiver_for(plan, state);
        let res = crate::panics::catch(|| r.feed(&stream));
        match res {
            Err(c) => {
                if crate::panics::in_real_code(&c) {
                    ctx.violate("C09", "panic", &c.discriminator(), format!("{} on mutation {} (state {})", c.describe(), m, state));
                } else {
                    panic!("harness panic: {}", c.describe());
                }
                ctx.log(&format!("{}>panic", kind), "");
            }
            Ok(delivered) => {
                let msgs: Vec<&Delivered> = delivered.iter().filter(|d| matches!(d, Delivered::Message(_, _))).collect();
                let may_deliver_original = intact_frames >= valid.chunks.len();
                for d in msgs.iter() {
                    if let Delivered::Message(_, got) = d {
                        if *got == valid.msg && may_deliver_original {
                            continue; // the consumed frames are byte-identical to the originals
                        }
                        if id == "C08" || true {
                            ctx.violate(
                                "C08",
                                if *got == valid.msg { "modified-chunk-accepted" } else { "other-message-accepted" },
                                &format!("{},{}", kind, plan["kind"].as_str().unwrap_or("")),
                                format!("receiver delivered a message from a stream with mutation {} ({} {} {} bits)", m, plan["policy"], plan["mode"], plan["bits"]),
                            );
                        }
                    }
                }
                let cls = if msgs.is_empty() { if delivered.is_empty() { "nothing" } else { "rejected" } } else { "delivered" };
                ctx.log(&format!("{}>{}", kind, cls), "");
            }
        }
    }
    ctx.advance(muts.len() as u64);
}

/// C09 structure-aware mutations of a valid chunk (in addition to raw flips).
fn c09_mutation(rng: &mut Rng, valid_first: &[u8], asym: bool) -> Value {
    let states = ["established", "no_keys", "fresh", "fresh_with_cert"];
    let state = *rng.pick(&states);
    let len = valid_first.len();
    let m = match rng.below(12) {
        0 => json!({"m": "flip", "off": rng.below(len.min(if asym { 400 } else { 24 }) as u64), "mask": 1u64 << rng.below(8)}),
        1 => json!({"m": "flip", "off": rng.below(len as u64), "mask": 1 + rng.below(255)}),
        2 => json!({"m": "truncate_fix", "off": rng.urange(12, len.max(13) - 1)}),
        3 => json!({"m": "truncate_fix", "off": rng.urange(12, 64.min(len.max(13) - 1))}),
        4 => json!({"m": "extend_fix", "n": if rng.chance(0.6) { rng.urange(1, 40) } else { *rng.pick(&[64usize, 128, 256, 384, 512]) }}),
        5 => json!({"m": "patch", "at": 4, "bytes": wire::hex(&(rng.below(70000) as u32).to_le_bytes())}),
        6 => {
            let n = rng.urange(1, 8);
            json!({"m": "patch", "at": rng.below(len as u64), "bytes": wire::hex(&rng.bytes(n))})
        }
        7 => json!({"m": "patch", "at": rng.urange(12, 40.min(len - 1)), "bytes": "ffffffff"}), // a length field becomes -1
        8 => json!({"m": "patch", "at": rng.urange(12, 40.min(len - 1)), "bytes": "00000000"}), // ... or 0
        9 => json!({"m": "patch", "at": rng.urange(12, 120.min(len - 1)), "bytes": wire::hex(&(rng.below(400) as u32).to_le_bytes())}),
        10 if asym && rng.chance(0.5) => json!({"m": "repad", "val": *rng.pick(&[0u64, 1, 2, 15, 16, 100, 200, 255, 256, 300, 1000, 1231, 2000, 4000, 65535]), "two": rng.chance(0.3)}),
        10 => json!({"m": "swap_type", "to": *rng.pick(&["MSG", "OPN", "CLO"])}),
        _ => json!({"m": "random", "n": rng.urange(8, 300), "seed": rng.next_u64() >> 16, "type": *rng.pick(&["MSGF", "OPNF", "CLOF", "MSGC", "MSGA"])}),
    };
    let mut m = m;
    m["state"] = json!(state);
    m
}

fn mutate_c09(valid: &Valid, m: &Value, plan: &Value) -> Vec<u8> {
    let kind = m["m"].as_str().unwrap_or("");
    let mut stream: Vec<u8> = valid.chunks[0].clone();
    match kind {
        // a peer that owns valid keys but writes a bogus padding length: the asymmetric chunk is
        // decrypted (the harness knows the receiver's key), the padding length bytes are replaced,
        // and the chunk is signed and encrypted again with the real primitives
        "repad" => {
            match repad_opn(&stream, plan, m["val"].as_u64().unwrap_or(0) as u16, m["two"].as_bool().unwrap_or(false)) {
                Some(s) => s,
                None => stream,
            }
        }
        "patch" => {
            let at = (m["at"].as_u64().unwrap_or(0) as usize).min(stream.len().saturating_sub(1));
            let bytes = wire::unhex(m["bytes"].as_str().unwrap_or("00"));
            for (k, b) in bytes.iter().enumerate() {
                if at + k < stream.len() {
                    stream[at + k] = *b;
                }
            }
            // keep the frame self-consistent unless the size field itself was patched
            if at >= 8 {
                let sz = (stream.len() as u32).to_le_bytes();
                stream[4..8].copy_from_slice(&sz);
            }
            stream
        }
        "swap_type" => {
            let t = m["to"].as_str().unwrap_or("MSG").as_bytes();
            stream[0..3].copy_from_slice(&t[0..3]);
            stream
        }
        "random" => {
            let n = m["n"].as_u64().unwrap_or(16) as usize;
            let mut r = Rng::new(m["seed"].as_u64().unwrap_or(1));
            let mut v = r.bytes(n.max(8));
            let t = m["type"].as_str().unwrap_or("MSGF").as_bytes();
            v[0..4].copy_from_slice(&t[0..4]);
            let sz = (v.len() as u32).to_le_bytes();
            v[4..8].copy_from_slice(&sz);
            v
        }
        _ => mutate(valid, m, plan).0,
    }
}

fn repad_opn(valid_chunk: &[u8], plan: &Value, val: u16, two_bytes: bool) -> Option<Vec<u8>> {
    if plan["kind"] != "opn" {
        return None;
    }
    let policy = wire::policy_by_name(plan["policy"].as_str().unwrap_or("None"));
    if policy == SecurityPolicy::None {
        return None;
    }
    let bits = plan["bits"].as_u64().unwrap_or(2048) as u32;
    let dir = plan["dir"].as_str().unwrap_or("c2s");
    let (sender, receiver) = if dir == "c2s" { (wire::identity(bits, "a"), wire::identity(bits, "b")) } else { (wire::identity(bits, "b"), wire::identity(bits, "a")) };
    // where does the encrypted part start? (policy != None: header 12, then the asymmetric security header)
    let chan = wire::bare_channel(opcua::core::comms::secure_channel::Role::Server, DecodingOptions::default());
    let chunk = MessageChunk { data: valid_chunk.to_vec() };
    let info = chunk.chunk_info(&chan).ok()?;
    let start = info.sequence_header_offset;
    let cipher = &valid_chunk[start..];
    let mut plain = vec![0u8; cipher.len() + 16];
    let n = policy.asymmetric_decrypt(&receiver.key(), cipher, &mut plain).ok()?;
    plain.truncate(n);
    let sig = sender.key().size();
    if plain.len() < sig + 4 {
        return None;
    }
    let pad_at = plain.len() - sig - 1;
    if two_bytes || sig > 256 {
        // keys above 2048 bits use an extra padding size byte
        plain[pad_at] = (val >> 8) as u8;
        plain[pad_at - 1] = (val & 0xff) as u8;
    } else {
        plain[pad_at] = (val & 0xff) as u8;
    }
    // sign header + plaintext up to the signature, with the message size the cipher text will have
    let mut signed = valid_chunk[..start].to_vec();
    signed.extend_from_slice(&plain[..plain.len() - sig]);
    let mut signature = vec![0u8; sig];
    policy.asymmetric_sign(&sender.key(), &signed, &mut signature).ok()?;
    let body_len = plain.len() - sig;
    plain[body_len..].copy_from_slice(&signature);
    let mut out = valid_chunk[..start].to_vec();
    let mut enc = vec![0u8; cipher.len() + 1024];
    let m = policy.asymmetric_encrypt(&receiver.cert.public_key().ok()?, &plain, &mut enc).ok()?;
    out.extend_from_slice(&enc[..m]);
    if out.len() != valid_chunk.len() {
        return None;
    }
    Some(out)
}

fn exec_c09(plan: &Value, ctx: &mut Ctx) {
    let mut pair = make_pair(plan);
    let valid = match make_valid(plan, &mut pair) {
        Some(v) => v,
        None => return,
    };
    let muts = plan["steps"].as_array().cloned().unwrap_or_default();
    for (i, m) in muts.iter().enumerate() {
        ctx.step(i);
        let stream = mutate_c09(&valid, m, plan);
        let kind = m["m"].as_str().unwrap_or("");
        let state = m["state"].as_str().unwrap_or("established");
        ctx.fault(kind);
        // the receive path proper: SecureChannel::verify_and_remove_security on the raw bytes, and
        // the full receiver (codec + chunk info + chunker) as the transports use it
        let mut r = receiver_for(plan, state);
        let s2 = stream.clone();
        let res = crate::panics::catch(move || {
            let direct = r.chan.verify_and_remove_security(&s2).map(|c| c.data.len());
            let mut r2 = r;
            let fed = r2.feed(&s2).len();
            (direct.is_ok(), fed)
        });
        match res {
            Err(c) => {
                if crate::panics::in_real_code(&c) {
                    ctx.violate("C09", "panic", &c.discriminator(), format!("{} on {} chunk ({} {} {} bits, receiver state {}) with mutation {}", c.describe(), plan["kind"], plan["policy"], plan["mode"], plan["bits"], state, m));
                } else {
                    panic!("harness panic: {}", c.describe());
                }
                ctx.log(&format!("{}@{}>panic", kind, state), "");
            }
            Ok((ok, _)) => {
                ctx.log(&format!("{}@{}>{}", kind, state, if ok { "ok" } else { "err" }), "");
            }
        }
    }
    ctx.advance(muts.len() as u64);
}

/// (configuration, cumulative run count) for the C08 enumeration; computed once per process.
fn c08_table(tier: Tier) -> &'static Vec<(Value, u64)> {
    static Q: std::sync::OnceLock<Vec<(Value, u64)>> = std::sync::OnceLock::new();
    static T: std::sync::OnceLock<Vec<(Value, u64)>> = std::sync::OnceLock::new();
    let cell = if tier == Tier::Thorough { &T } else { &Q };
    cell.get_or_init(|| {
        let mut acc = 0u64;
        let mut v = Vec::new();
        for cfg in c08_configs(tier) {
            acc += c08_blocks(&cfg);
            v.push((cfg, acc));
        }
        v
    })
}
