//! C14 Security token renewal never breaks a healthy channel.
//!
//! L2, server side: a raw client on a Sign / SignAndEncrypt channel interleaves Write requests with
//! token renewals. The client keeps securing requests under the old token between sending the
//! renew request and applying the renew response (exactly what a real client does while the
//! response is in flight). Whether the server accepted a request is observed through its effect
//! (the written value), so the verdict does not depend on the client being able to read the
//! response.

use crate::ctx::Ctx;
use crate::framework::{Info, Scenario, Tier};
use crate::l2::{self, Conn, Recv, ServerSpec};
use crate::rng::Rng;
use crate::wire;
use opcua::core::supported_message::SupportedMessage;
use opcua::crypto::SecurityPolicy;
use opcua::server::address_space::variable::VariableBuilder;
use opcua::types::*;
use serde_json::{json, Value};
use std::time::Duration;

pub struct C14;

impl Scenario for C14 {
    fn id(&self) -> &'static str {
        "C14"
    }
    fn info(&self) -> Info {
        Info {
            level: "exploration",
            exhaustive: false,
            layer: "L2 (real server reader / writer tasks and SecureChannelService, raw client)",
            rule: "run = one secured channel (policy x {Sign, SignAndEncrypt}, RSA 2048) and a seeded interleaving of: Write request secured under the client's current token; renew-begin (send the OpenSecureChannel renew request, hold the response); renew-end (apply the held response); request secured under a token / keys the server never issued. Up to two renewals and six requests around them. Oracle: a request secured under the token that was current at the server when it was secured, or the immediately previous one while the server has not yet received anything under the newer token, takes effect (the variable changes); a request under a never-issued token never takes effect. non-trivial = a request was sent between renew-begin and renew-end, or a forged token was used; distinct = op/outcome hash.",
            real: vec!["server TcpTransport tasks", "SecureChannelService::open_secure_channel (issue and renew)", "SecureChannel (server side) verify_and_remove_security / apply_security", "MessageHandler / AttributeService::write"],
            stubbed: vec!["TCP socket", "client (raw scripted peer built from the real SecureChannel / Chunker)"],
            assumptions: vec!["RSA 2048 only", "client half: every third run; the scripted server never sends old-token messages after its OpenSecureChannel response (TCP preserves order)"],
            fault_kinds: vec!["request_in_flight_across_renew", "forged_token", "double_renew", "client_renewal", "response_under_new_token_right_after_renewal", "request_and_renewal_in_one_burst"],
        }
    }
    fn runs(&self, tier: Tier) -> u64 {
        if tier == Tier::Thorough {
            30_000
        } else {
            1200
        }
    }
    fn gen(&self, seed: u64, run: u64, _tier: Tier) -> Value {
        let mut rng = Rng::new(crate::framework::run_seed(seed, "C14", run));
        if run % 3 == 2 {
            return gen_client(&mut rng);
        }
        let policy = *rng.pick(&["Basic256Sha256", "Basic128Rsa15", "Aes128-Sha256-RsaOaep", "Basic256", "Aes256-Sha256-RsaPss"]);
        let mode = *rng.pick(&["Sign", "SignAndEncrypt"]);
        let mut steps = Vec::new();
        let n = rng.urange(3, 10);
        let mut pending_renew = false;
        let mut renewals = 0;
        for _ in 0..n {
            match rng.below(10) {
                0..=4 => steps.push(json!({"op": "request"})),
                5..=6 => {
                    if !pending_renew && renewals < 2 {
                        steps.push(json!({"op": "renew_begin"}));
                        pending_renew = true;
                        renewals += 1;
                        // bias: something in flight right after the renew request
                        if rng.chance(0.8) {
                            steps.push(json!({"op": "request"}));
                        }
                    } else {
                        steps.push(json!({"op": "renew_end"}));
                        pending_renew = false;
                    }
                }
                7 => {
                    if !pending_renew && renewals < 2 && rng.chance(0.5) {
                        // a request and the renewal leave the client in one burst
                        steps.push(json!({"op": "request_and_renew_burst", "requests": rng.urange(1, 3)}));
                        renewals += 1;
                    } else {
                        steps.push(json!({"op": "renew_end"}));
                        pending_renew = false;
                    }
                }
                _ => steps.push(json!({"op": "forged", "how": *rng.pick(&["other_nonces", "token_id", "token_id_zero", "token_id_older"])})),
            }
        }
        json!({"policy": policy, "mode": mode, "tseed": rng.next_u64() >> 12, "steps": steps})
    }
    fn exec(&self, plan: &Value, ctx: &mut Ctx) {
        let rt = l2::runtime(plan["tseed"].as_u64().unwrap_or(1));
        if plan["side"] == "client" {
            rt.block_on(run_client(plan, ctx));
            crate::rawsrv::remove_connector();
        } else {
            rt.block_on(run(plan, ctx));
        }
    }
    fn panic_property(&self) -> &'static str {
        "C09"
    }
}

fn write_req(c: &mut Conn, var: &NodeId, value: i32) -> SupportedMessage {
    WriteRequest {
        request_header: c.header(),
        nodes_to_write: Some(vec![WriteValue {
            node_id: var.clone(),
            attribute_id: AttributeId::Value as u32,
            index_range: UAString::null(),
            value: DataValue::value_only(Variant::Int32(value)),
        }]),
    }
    .into()
}

fn current_value(server: &opcua::server::prelude::Server, var: &NodeId) -> i32 {
    let a = server.address_space();
    let a = a.read();
    match a.get_variable_value(var.clone()).ok().and_then(|d| d.value) {
        Some(Variant::Int32(v)) => v,
        _ => -1,
    }
}

async fn run(plan: &Value, ctx: &mut Ctx) {
    crate::hooks::follow_tokio();
    let policy = wire::policy_by_name(plan["policy"].as_str().unwrap_or("Basic256Sha256"));
    let mode = wire::mode_by_name(plan["mode"].as_str().unwrap_or("Sign"));
    let mut spec = ServerSpec::default();
    spec.endpoints = vec![(policy, mode), (SecurityPolicy::None, MessageSecurityMode::None)];
    let server = l2::build_server(&spec);
    let var;
    {
        let aspace = server.address_space();
        let mut a = aspace.write();
        let ns = a.register_namespace("urn:sim:renew").unwrap_or(2);
        var = NodeId::new(ns, "v");
        VariableBuilder::new(&var, "v", "v").data_type(DataTypeId::Int32).value(0i32).organized_by(ObjectId::ObjectsFolder).writable().insert(&mut a);
    }
    let mut c = Conn::connect(&server, 100.0, 1 << 22, 59000);
    if !c.handshake(policy, mode, 2048).await {
        ctx.log("handshake-failed", "");
        return;
    }
    // token bookkeeping
    let mut server_token = c.chan.token_id(); // newest token the server issued
    let mut server_seen_token = c.chan.token_id(); // newest token under which the server received a message
    let mut held_response: Option<OpenSecureChannelResponse> = None;
    let mut value = 0i32;
    let steps = plan["steps"].as_array().cloned().unwrap_or_default();
    for (i, s) in steps.iter().enumerate() {
        ctx.step(i);
        if !c.is_open() {
            ctx.log("connection-closed", "");
            break;
        }
        match s["op"].as_str().unwrap_or("") {
            "request" | "forged" => {
                let forged = s["op"] == "forged";
                value += 1;
                let client_token = c.chan.token_id();
                let msg = write_req(&mut c, &var, value);
                let encoded = if forged {
                    ctx.fault("forged_token");
                    // secure with a channel the server knows nothing about
                    let how = s["how"].as_str().unwrap_or("other_nonces");
                    let mut pair = wire::channel_pair(policy, mode, 2048, 0xF00D + i as u64, c.chan.secure_channel_id(), client_token);
                    if how.starts_with("token_id") {
                        // real keys of the client, but a token id nobody issued (far ahead, zero, or
                        // one below the oldest the server can still know)
                        let bogus = match how {
                            "token_id_zero" => 0,
                            "token_id_older" => client_token.saturating_sub(2),
                            _ => client_token + 40,
                        };
                        c.chan.set_token_id(bogus);
                        let r = c.encode_message(&msg);
                        c.chan.set_token_id(client_token);
                        r
                    } else {
                        let saved_seq = c.next_seq;
                        let saved_req = c.next_req;
                        std::mem::swap(&mut c.chan, &mut pair.client);
                        let r = c.encode_message(&msg);
                        std::mem::swap(&mut c.chan, &mut pair.client);
                        let _ = (saved_seq, saved_req);
                        r
                    }
                } else {
                    c.encode_message(&msg)
                };
                let (_id, chunks) = match encoded {
                    Ok(x) => x,
                    Err(_) => continue,
                };
                let in_flight_across_renew = held_response.is_some();
                if in_flight_across_renew && !forged {
                    ctx.fault("request_in_flight_across_renew");
                }
                for ch in chunks.iter() {
                    c.send_bytes(ch).await;
                }
                tokio::time::sleep(Duration::from_millis(5)).await;
                let _ = c.drain(Duration::from_millis(0)).await; // responses may be unreadable for the raw client; not needed
                let took_effect = current_value(&server, &var) == value;
                // model
                let token_used = if forged && s["how"].as_str().unwrap_or("").starts_with("token_id") { u32::MAX - 1 } else { client_token };
                let issued = !forged && token_used <= server_token;
                let must_accept = issued && (token_used == server_token || (token_used + 1 == server_token && server_seen_token < server_token));
                ctx.log(
                    &format!("{}({})>{}", s["op"].as_str().unwrap_or(""), if token_used == server_token { "current" } else if token_used + 1 == server_token { "previous" } else { "other" }, if took_effect { "effect" } else { "no-effect" }),
                    "",
                );
                if forged && took_effect {
                    ctx.violate("C14", "never-issued-token-accepted", s["how"].as_str().unwrap_or(""), format!("a request secured under a token the server never issued ({}) took effect", s["how"]));
                }
                if must_accept && !took_effect {
                    ctx.violate(
                        "C14",
                        "old-token-rejected",
                        &format!("side=server,pattern={}", if in_flight_across_renew { "request-in-flight-across-renew" } else { "current-token" }),
                        format!(
                            "a request correctly secured under token {} (server's newest token {}, server has seen nothing newer than {}) was not accepted{}",
                            token_used,
                            server_token,
                            server_seen_token,
                            if c.is_open() { "" } else { " and the connection was dropped" }
                        ),
                    );
                }
                if took_effect && !forged {
                    server_seen_token = server_seen_token.max(token_used);
                } else if !took_effect {
                    value -= 1;
                }
            }
            "request_and_renew_burst" => {
                if held_response.is_some() {
                    continue;
                }
                ctx.fault("request_and_renewal_in_one_burst");
                let old_token = c.chan.token_id();
                let mut burst: Vec<u8> = Vec::new();
                let n = s["requests"].as_u64().unwrap_or(1);
                for _ in 0..n {
                    value += 1;
                    let msg = write_req(&mut c, &var, value);
                    if let Ok((_, chunks)) = c.encode_message(&msg) {
                        for ch in chunks {
                            burst.extend_from_slice(&ch);
                        }
                    }
                }
                let req = c.opn_request(true, 3_600_000);
                let opn_id = match c.encode_message(&req) {
                    Ok((id, chunks)) => {
                        for ch in chunks {
                            burst.extend_from_slice(&ch);
                        }
                        id
                    }
                    Err(_) => continue,
                };
                if !c.send_bytes(&burst).await {
                    break;
                }
                // read raw frames until the OpenSecureChannel response: which token do the
                // responses that precede it name?
                use tokio::io::AsyncReadExt;
                use tokio_util::codec::Decoder;
                let deadline = tokio::time::Instant::now() + Duration::from_millis(300);
                let mut before_opn: Vec<u32> = Vec::new();
                let mut opn_chunk: Option<Vec<u8>> = None;
                'read: loop {
                    loop {
                        match c.codec.decode(&mut c.inbuf) {
                            Ok(Some(opcua::core::comms::tcp_codec::Message::Chunk(ch))) => {
                                if &ch.data[0..3] == b"OPN" {
                                    opn_chunk = Some(ch.data.clone());
                                    break 'read;
                                } else if ch.data.len() >= 16 {
                                    before_opn.push(u32::from_le_bytes([ch.data[12], ch.data[13], ch.data[14], ch.data[15]]));
                                }
                            }
                            Ok(Some(_)) => break 'read,
                            Ok(None) => break,
                            Err(_) => break 'read,
                        }
                    }
                    let now = tokio::time::Instant::now();
                    if now >= deadline || c.io.is_none() {
                        break;
                    }
                    let mut tmp = [0u8; 16384];
                    match tokio::time::timeout(deadline - now, c.io.as_mut().unwrap().read(&mut tmp)).await {
                        Ok(Ok(k)) if k > 0 => c.inbuf.extend_from_slice(&tmp[..k]),
                        _ => break,
                    }
                }
                let took_effect = current_value(&server, &var) == value;
                ctx.log(&format!("burst>{}:{}", before_opn.len(), if opn_chunk.is_some() { "renewed" } else { "no-renewal" }), "");
                if let Some(bytes) = opn_chunk {
                    // the client learns the new token only now
                    let unknown: Vec<u32> = before_opn.iter().cloned().filter(|t| *t != old_token).collect();
                    if !unknown.is_empty() {
                        ctx.violate(
                            "C14",
                            "response-under-unannounced-token",
                            "side=server",
                            format!("{} response chunk(s) that the server wrote before its OpenSecureChannel response name token {:?}; the client's current token is {} and it cannot know a newer one before it has seen that response", unknown.len(), unknown, old_token),
                        );
                    }
                    if let Ok(chunk) = c.chan.verify_and_remove_security(&bytes) {
                        if let Ok(SupportedMessage::OpenSecureChannelResponse(resp)) = opcua::core::comms::chunker::Chunker::decode(&[chunk], &c.chan, None) {
                            server_token = resp.security_token.token_id;
                            let _ = c.apply_opn_response(&resp);
                            let _ = opn_id;
                        }
                    }
                }
                if !took_effect {
                    ctx.violate("C14", "old-token-rejected", "side=server,pattern=request-then-renew-burst", "a request secured under the current token and sent right before the renewal request did not take effect".to_string());
                    value -= n as i32;
                } else {
                    server_seen_token = server_seen_token.max(old_token);
                }
            }
            "renew_begin" => {
                if held_response.is_some() {
                    ctx.fault("double_renew");
                }
                let req = c.opn_request(true, 3_600_000);
                let id = match c.send_message(&req).await {
                    Some(id) => id,
                    None => break,
                };
                let r = c.recv_for(id, Duration::from_millis(200)).await;
                if let Recv::Msg(_, SupportedMessage::OpenSecureChannelResponse(resp)) = r {
                    server_token = resp.security_token.token_id;
                    held_response = Some(*resp);
                    ctx.log("renew_begin>ok", "");
                } else {
                    ctx.log(&format!("renew_begin>{}", l2::recv_kind(&r)), "");
                }
            }
            "renew_end" => {
                if let Some(resp) = held_response.take() {
                    let _ = c.apply_opn_response(&resp);
                    ctx.log("renew_end", "");
                }
            }
            _ => {}
        }
    }
    ctx.advance(5000 * steps.len() as u64);
}

// ------------------------------------------------------------------------------------------------
// Client half: the real AsyncSecureChannel renews its token (75 % of the lifetime) while the
// scripted server still owes it responses; the server answers those under the *new* token, in the
// same burst as the OpenSecureChannel response or shortly after.

pub fn client_pki(bits: u32) -> std::path::PathBuf {
    let d = l2::scratch_dir().join(format!("client-pki-{}", bits));
    if !d.join("own/cert.der").exists() {
        let a = wire::identity(bits, "a");
        let b = wire::identity(bits, "b");
        for sub in ["own", "private", "trusted", "rejected"] {
            let _ = std::fs::create_dir_all(d.join(sub));
        }
        std::fs::write(d.join("own/cert.der"), a.cert.to_der().expect("der")).expect("write cert");
        std::fs::write(d.join("private/private.pem"), &a.pem).expect("write key");
        let name = opcua::crypto::CertificateStore::cert_file_name(&b.cert);
        std::fs::write(d.join("trusted").join(name), b.cert.to_der().expect("der")).expect("write trusted");
    }
    d
}

pub fn gen_client(rng: &mut Rng) -> Value {
    let policy = *rng.pick(&["Basic256Sha256", "Basic128Rsa15", "Aes128-Sha256-RsaOaep", "Basic256", "Aes256-Sha256-RsaPss"]);
    let mode = *rng.pick(&["Sign", "SignAndEncrypt"]);
    let lifetime = *rng.pick(&[1000u64, 2000, 4000]);
    let mut steps = Vec::new();
    let mut t = 0u64;
    for _ in 0..rng.urange(2, 8) {
        t += *rng.pick(&[10u64, 100, 300, 700, 1200]);
        // hold: the server keeps the response back until the next renewal (like a publish request)
        steps.push(json!({"op": "submit", "at_ms": t, "hold": rng.chance(0.5), "delay_ms": *rng.pick(&[0u64, 1, 20])}));
    }
    json!({
        "side": "client", "policy": policy, "mode": mode, "lifetime_ms": lifetime,
        // where the held responses go relative to the OpenSecureChannel response
        "held_after_opn_ms": *rng.pick(&[0u64, 0, 0, 1, 5, 50]),
        "held_before_opn": rng.chance(0.3),
        "tseed": rng.next_u64() >> 12, "steps": steps
    })
}

pub async fn run_client(plan: &Value, ctx: &mut Ctx) {
    use crate::rawsrv::{self, RawServer, SrvRecv};
    use opcua::client::transport::tcp::TransportConfiguration;
    use opcua::client::transport::{AsyncSecureChannel, TransportPollResult};
    use std::collections::BTreeMap;
    use std::sync::{Arc, Mutex};
    use tokio::time::Instant;
    crate::hooks::follow_tokio();
    let policy = wire::policy_by_name(plan["policy"].as_str().unwrap_or("Basic256Sha256"));
    let mode = wire::mode_by_name(plan["mode"].as_str().unwrap_or("Sign"));
    let lifetime = plan["lifetime_ms"].as_u64().unwrap_or(2000) as u32;
    let acceptor = rawsrv::install_connector(1 << 22);
    let store = Arc::new(opcua::sync::RwLock::new(opcua::crypto::CertificateStore::new(&client_pki(2048))));
    let mut endpoint = super::c35_client::none_endpoint();
    endpoint.security_policy_uri = UAString::from(policy.to_uri());
    endpoint.security_mode = mode;
    endpoint.server_certificate = wire::identity(2048, "b").cert.as_byte_string();
    let channel = Arc::new(AsyncSecureChannel::new(
        store,
        endpoint.into(),
        opcua::client::retry::SessionRetryPolicy::default(),
        DecodingOptions::default(),
        false,
        Default::default(),
        TransportConfiguration { max_pending_incoming: 50, max_inflight: 16, send_buffer_size: 65536, recv_buffer_size: 65536, max_message_size: 1 << 22, max_chunk_count: 64 },
    ));
    let acc2 = acceptor.clone();
    let srv_task = tokio::spawn(async move {
        let io = acc2.accept(Duration::from_secs(5)).await?;
        let mut srv = RawServer::new(io, 79).with_identity(2048);
        if srv.handshake(lifetime).await {
            Some(srv)
        } else {
            None
        }
    });
    let mut event_loop = match channel.connect_no_retry().await {
        Ok(e) => e,
        Err(e) => {
            ctx.log("connect-failed", e.name());
            return;
        }
    };
    let mut srv = match srv_task.await {
        Ok(Some(s)) => s,
        _ => {
            ctx.log("server-handshake-failed", "");
            return;
        }
    };
    let closed: Arc<Mutex<Option<(Instant, StatusCode)>>> = Arc::new(Mutex::new(None));
    let c2 = closed.clone();
    let el = tokio::spawn(async move {
        loop {
            if let TransportPollResult::Closed(s) = event_loop.poll().await {
                *c2.lock().unwrap() = Some((Instant::now(), s));
                break;
            }
        }
    });
    let t0 = Instant::now();
    let steps = plan["steps"].as_array().cloned().unwrap_or_default();
    let results: Arc<Mutex<BTreeMap<usize, Result<u32, StatusCode>>>> = Arc::new(Mutex::new(BTreeMap::new()));
    let mut tasks = Vec::new();
    let mut end = t0 + Duration::from_millis(500);
    for (i, s) in steps.iter().enumerate() {
        let at = t0 + Duration::from_millis(s["at_ms"].as_u64().unwrap_or(0));
        end = end.max(at + Duration::from_millis(500));
        let ch = channel.clone();
        let res = results.clone();
        tasks.push(tokio::spawn(async move {
            tokio::time::sleep_until(at).await;
            let req = ReadRequest {
                request_header: wire::request_header(2000 + i as u32),
                max_age: 0.0,
                timestamps_to_return: TimestampsToReturn::Neither,
                nodes_to_read: Some(vec![ReadValueId { node_id: NodeId::new(1, i as u32), attribute_id: AttributeId::Value as u32, index_range: UAString::null(), data_encoding: QualifiedName::null() }]),
            };
            let r = ch.send(req, Duration::from_secs(20)).await;
            let v = match r {
                Ok(SupportedMessage::ReadResponse(rr)) => match rr.results.as_ref().and_then(|v| v.first()).and_then(|d| d.value.clone()) {
                    Some(Variant::UInt32(tag)) => Ok(tag),
                    _ => Ok(u32::MAX),
                },
                Ok(_) => Ok(u32::MAX - 1),
                Err(e) => Err(e),
            };
            res.lock().unwrap().insert(i, v);
        }));
    }
    end += Duration::from_millis(lifetime as u64);
    // ---- scripted server ----
    let reply = |handle: u32, tag: u32| -> SupportedMessage {
        ReadResponse { response_header: rawsrv::good_header(handle), results: Some(vec![DataValue::value_only(Variant::UInt32(tag))]), diagnostic_infos: None }.into()
    };
    let mut held: Vec<(u32, u32, u32)> = Vec::new(); // (request id, handle, tag)
    let mut due: BTreeMap<(Instant, u64), (u32, u32, u32)> = BTreeMap::new();
    let mut qn = 0u64;
    let mut renewals = 0u32;
    let mut new_token_responses = 0u32;
    let held_after = Duration::from_millis(plan["held_after_opn_ms"].as_u64().unwrap_or(0));
    let held_before = plan["held_before_opn"].as_bool().unwrap_or(false);
    loop {
        let now = Instant::now();
        if now >= end || !srv.is_open() {
            break;
        }
        let first_due = due.keys().next().cloned().filter(|k| k.0 <= now);
        if let Some(k) = first_due {
            let (rid, handle, tag) = due.remove(&k).unwrap();
            srv.respond(rid, &reply(handle, tag)).await;
            continue;
        }
        let mut wake = end;
        if let Some(k) = due.keys().next() {
            wake = wake.min(k.0);
        }
        let wait = if wake > now { wake - now } else { Duration::from_micros(0) };
        match srv.recv(wait).await {
            SrvRecv::Msg { request_id, msg, .. } => match msg {
                SupportedMessage::ReadRequest(r) => {
                    let idx = r.nodes_to_read.as_ref().and_then(|v| v.first()).map(|n| match &n.node_id.identifier {
                        Identifier::Numeric(v) => *v as usize,
                        _ => usize::MAX,
                    });
                    let Some(idx) = idx else { continue };
                    let Some(s) = steps.get(idx) else { continue };
                    let handle = r.request_header.request_handle;
                    if s["hold"].as_bool().unwrap_or(false) {
                        held.push((request_id, handle, idx as u32));
                    } else {
                        qn += 1;
                        due.insert((Instant::now() + Duration::from_millis(s["delay_ms"].as_u64().unwrap_or(0)), qn), (request_id, handle, idx as u32));
                    }
                }
                SupportedMessage::OpenSecureChannelRequest(req) => {
                    renewals += 1;
                    ctx.fault("client_renewal");
                    if held_before {
                        // answered under the old token, in order, before the renewal is answered
                        for (rid, handle, tag) in held.drain(..) {
                            srv.respond(rid, &reply(handle, tag)).await;
                        }
                    }
                    let cert = srv.remote_cert_bytes();
                    let resp = srv.open_response(&req, &cert, lifetime);
                    srv.respond(request_id, &resp).await;
                    // from here on the server secures with the new token
                    for (rid, handle, tag) in held.drain(..) {
                        new_token_responses += 1;
                        ctx.fault("response_under_new_token_right_after_renewal");
                        if held_after.is_zero() {
                            srv.respond(rid, &reply(handle, tag)).await;
                        } else {
                            qn += 1;
                            due.insert((Instant::now() + held_after, qn), (rid, handle, tag));
                        }
                    }
                }
                _ => {}
            },
            SrvRecv::Timeout => {}
            _ => break,
        }
    }
    // flush what is still held, then give the client a moment
    for (rid, handle, tag) in held.drain(..) {
        srv.respond(rid, &reply(handle, tag)).await;
    }
    for (_, (rid, handle, tag)) in std::mem::take(&mut due) {
        srv.respond(rid, &reply(handle, tag)).await;
    }
    tokio::time::sleep(Duration::from_millis(200)).await;
    if renewals > 0 && new_token_responses > 0 {
        ctx.nontrivial = true;
    }
    let closed = *closed.lock().unwrap();
    let res = results.lock().unwrap();
    if let Some((at, status)) = closed {
        ctx.violate(
            "C14",
            "old-token-rejected",
            "side=client,pattern=response-under-new-token-before-keys-installed",
            format!(
                "the client transport closed with {} at {} ms: after {} renewal(s) the server answered {} held request(s) under the new token {} ms after its OpenSecureChannel response, and the client could not verify them",
                status.name(),
                (at - t0).as_millis(),
                renewals,
                new_token_responses,
                held_after.as_millis()
            ),
        );
    }
    for (i, _) in steps.iter().enumerate() {
        match res.get(&i) {
            Some(Ok(tag)) if *tag == i as u32 => ctx.log(&format!("r{}>ok", i), ""),
            Some(Ok(tag)) => ctx.violate("C14", "wrong-response", "side=client", format!("request {} completed with the response for {}", i, tag)),
            Some(Err(e)) => {
                ctx.log(&format!("r{}>{}", i, e.name()), "");
                if closed.is_none() {
                    ctx.violate("C14", "request-failed-on-healthy-channel", e.name(), format!("request {} failed with {} although the server answered every request correctly secured", i, e.name()));
                }
            }
            None => {
                ctx.log(&format!("r{}>pending", i), "");
                if closed.is_none() {
                    ctx.violate("C14", "request-failed-on-healthy-channel", "never-completed", format!("request {} never completed although the server answered it", i));
                }
            }
        }
    }
    ctx.add("client_renewals", renewals as u64);
    drop(res);
    el.abort();
    for t in tasks {
        t.abort();
    }
    ctx.advance((Instant::now() - t0).as_micros() as u64);
}
