//! C14 Security token renewal never breaks a healthy channel.
//!
//! L2, server side: a raw client on a Sign / SignAndEncrypt channel interleaves Write requests with
//! token renewals. The client keeps securing requests under the old token between sending the
//! renew request and applying the renew response (exactly what a real client does while the
//! response is in flight). Whether the server accepted a request is observed through its effect
//! (the written value), so the verdict does not depend on the client being able to read the
//! response.

use crate::ctx::Ctx;
use crate::framework::{Info, Scenario, Tier};
use crate::l2::{self, Conn, Recv, ServerSpec};
use crate::rng::Rng;
use crate::wire;
use opcua::core::supported_message::SupportedMessage;
use opcua::crypto::SecurityPolicy;
use opcua::server::address_space::variable::VariableBuilder;
use opcua::types::*;
use serde_json::{json, Value};
use std::time::Duration;

pub struct C14;

impl Scenario for C14 {
    fn id(&self) -> &'static str {
        "C14"
    }
    fn info(&self) -> Info {
        Info {
            level: "exploration",
            exhaustive: false,
            layer: "L2 (real server reader / writer tasks and SecureChannelService, raw client)",
            rule: "run = one secured channel (policy x {Sign, SignAndEncrypt}, RSA 2048) and a seeded interleaving of: Write request secured under the client's current token; renew-begin (send the OpenSecureChannel renew request, hold the response); renew-end (apply the held response); request secured under a token / keys the server never issued. Up to two renewals and six requests around them. Oracle: a request secured under the token that was current at the server when it was secured, or the immediately previous one while the server has not yet received anything under the newer token, takes effect (the variable changes); a request under a never-issued token never takes effect. non-trivial = a request was sent between renew-begin and renew-end, or a forged token was used; distinct = op/outcome hash.",
            real: vec!["server TcpTransport tasks", "SecureChannelService::open_secure_channel (issue and renew)", "SecureChannel (server side) verify_and_remove_security / apply_security", "MessageHandler / AttributeService::write"],
            stubbed: vec!["TCP socket", "client (raw scripted peer built from the real SecureChannel / Chunker)"],
            assumptions: vec!["client-side half (real client receiving new-token responses before it applied the renew response) is not covered by this scenario"],
            fault_kinds: vec!["request_in_flight_across_renew", "forged_token", "double_renew"],
        }
    }
    fn runs(&self, tier: Tier) -> u64 {
        if tier == Tier::Thorough {
            20_000
        } else {
            800
        }
    }
    fn gen(&self, seed: u64, run: u64, _tier: Tier) -> Value {
        let mut rng = Rng::new(crate::framework::run_seed(seed, "C14", run));
        let policy = *rng.pick(&["Basic256Sha256", "Basic128Rsa15", "Aes128-Sha256-RsaOaep", "Basic256", "Aes256-Sha256-RsaPss"]);
        let mode = *rng.pick(&["Sign", "SignAndEncrypt"]);
        let mut steps = Vec::new();
        let n = rng.urange(3, 10);
        let mut pending_renew = false;
        let mut renewals = 0;
        for _ in 0..n {
            match rng.below(10) {
                0..=4 => steps.push(json!({"op": "request"})),
                5..=6 => {
                    if !pending_renew && renewals < 2 {
                        steps.push(json!({"op": "renew_begin"}));
                        pending_renew = true;
                        renewals += 1;
                        // bias: something in flight right after the renew request
                        if rng.chance(0.8) {
                            steps.push(json!({"op": "request"}));
                        }
                    } else {
                        steps.push(json!({"op": "renew_end"}));
                        pending_renew = false;
                    }
                }
                7 => {
                    steps.push(json!({"op": "renew_end"}));
                    pending_renew = false;
                }
                _ => steps.push(json!({"op": "forged", "how": *rng.pick(&["other_nonces", "token_id"])})),
            }
        }
        json!({"policy": policy, "mode": mode, "tseed": rng.next_u64() >> 12, "steps": steps})
    }
    fn exec(&self, plan: &Value, ctx: &mut Ctx) {
        let rt = l2::runtime(plan["tseed"].as_u64().unwrap_or(1));
        rt.block_on(run(plan, ctx));
    }
    fn panic_property(&self) -> &'static str {
        "C09"
    }
}

fn write_req(c: &mut Conn, var: &NodeId, value: i32) -> SupportedMessage {
    WriteRequest {
        request_header: c.header(),
        nodes_to_write: Some(vec![WriteValue {
            node_id: var.clone(),
            attribute_id: AttributeId::Value as u32,
            index_range: UAString::null(),
            value: DataValue::value_only(Variant::Int32(value)),
        }]),
    }
    .into()
}

fn current_value(server: &opcua::server::prelude::Server, var: &NodeId) -> i32 {
    let a = server.address_space();
    let a = a.read();
    match a.get_variable_value(var.clone()).ok().and_then(|d| d.value) {
        Some(Variant::Int32(v)) => v,
        _ => -1,
    }
}

async fn run(plan: &Value, ctx: &mut Ctx) {
    crate::hooks::follow_tokio();
    let policy = wire::policy_by_name(plan["policy"].as_str().unwrap_or("Basic256Sha256"));
    let mode = wire::mode_by_name(plan["mode"].as_str().unwrap_or("Sign"));
    let mut spec = ServerSpec::default();
    spec.endpoints = vec![(policy, mode), (SecurityPolicy::None, MessageSecurityMode::None)];
    let server = l2::build_server(&spec);
    let var;
    {
        let aspace = server.address_space();
        let mut a = aspace.write();
        let ns = a.register_namespace("urn:sim:renew").unwrap_or(2);
        var = NodeId::new(ns, "v");
        VariableBuilder::new(&var, "v", "v").data_type(DataTypeId::Int32).value(0i32).organized_by(ObjectId::ObjectsFolder).writable().insert(&mut a);
    }
    let mut c = Conn::connect(&server, 100.0, 1 << 22, 59000);
    if !c.handshake(policy, mode, 2048).await {
        ctx.log("handshake-failed", "");
        return;
    }
    // token bookkeeping
    let mut server_token = c.chan.token_id(); // newest token the server issued
    let mut server_seen_token = c.chan.token_id(); // newest token under which the server received a message
    let mut held_response: Option<OpenSecureChannelResponse> = None;
    let mut value = 0i32;
    let steps = plan["steps"].as_array().cloned().unwrap_or_default();
    for (i, s) in steps.iter().enumerate() {
        ctx.step(i);
        if !c.is_open() {
            ctx.log("connection-closed", "");
            break;
        }
        match s["op"].as_str().unwrap_or("") {
            "request" | "forged" => {
                let forged = s["op"] == "forged";
                value += 1;
                let client_token = c.chan.token_id();
                let msg = write_req(&mut c, &var, value);
                let encoded = if forged {
                    ctx.fault("forged_token");
                    // secure with a channel the server knows nothing about
                    let how = s["how"].as_str().unwrap_or("other_nonces");
                    let mut pair = wire::channel_pair(policy, mode, 2048, 0xF00D + i as u64, c.chan.secure_channel_id(), if how == "token_id" { client_token + 40 } else { client_token });
                    if how == "token_id" {
                        // real keys of the client, but a token id nobody issued
                        c.chan.set_token_id(client_token + 40);
                        let r = c.encode_message(&msg);
                        c.chan.set_token_id(client_token);
                        r
                    } else {
                        let saved_seq = c.next_seq;
                        let saved_req = c.next_req;
                        std::mem::swap(&mut c.chan, &mut pair.client);
                        let r = c.encode_message(&msg);
                        std::mem::swap(&mut c.chan, &mut pair.client);
                        let _ = (saved_seq, saved_req);
                        r
                    }
                } else {
                    c.encode_message(&msg)
                };
                let (_id, chunks) = match encoded {
                    Ok(x) => x,
                    Err(_) => continue,
                };
                let in_flight_across_renew = held_response.is_some();
                if in_flight_across_renew && !forged {
                    ctx.fault("request_in_flight_across_renew");
                }
                for ch in chunks.iter() {
                    c.send_bytes(ch).await;
                }
                tokio::time::sleep(Duration::from_millis(5)).await;
                let _ = c.drain(Duration::from_millis(0)).await; // responses may be unreadable for the raw client; not needed
                let took_effect = current_value(&server, &var) == value;
                // model
                let token_used = if forged && s["how"] == "token_id" { client_token + 40 } else { client_token };
                let issued = !forged && token_used <= server_token;
                let must_accept = issued && (token_used == server_token || (token_used + 1 == server_token && server_seen_token < server_token));
                ctx.log(
                    &format!("{}({})>{}", s["op"].as_str().unwrap_or(""), if token_used == server_token { "current" } else if token_used + 1 == server_token { "previous" } else { "other" }, if took_effect { "effect" } else { "no-effect" }),
                    "",
                );
                if forged && took_effect {
                    ctx.violate("C14", "never-issued-token-accepted", s["how"].as_str().unwrap_or(""), format!("a request secured under a token the server never issued ({}) took effect", s["how"]));
                }
                if must_accept && !took_effect {
                    ctx.violate(
                        "C14",
                        "old-token-rejected",
                        &format!("side=server,pattern={}", if in_flight_across_renew { "request-in-flight-across-renew" } else { "current-token" }),
                        format!(
                            "a request correctly secured under token {} (server's newest token {}, server has seen nothing newer than {}) was not accepted{}",
                            token_used,
                            server_token,
                            server_seen_token,
                            if c.is_open() { "" } else { " and the connection was dropped" }
                        ),
                    );
                }
                if took_effect && !forged {
                    server_seen_token = server_seen_token.max(token_used);
                } else {
                    value -= 1;
                }
            }
            "renew_begin" => {
                if held_response.is_some() {
                    ctx.fault("double_renew");
                }
                let req = c.opn_request(true, 3_600_000);
                let id = match c.send_message(&req).await {
                    Some(id) => id,
                    None => break,
                };
                let r = c.recv_for(id, Duration::from_millis(200)).await;
                if let Recv::Msg(_, SupportedMessage::OpenSecureChannelResponse(resp)) = r {
                    server_token = resp.security_token.token_id;
                    held_response = Some(*resp);
                    ctx.log("renew_begin>ok", "");
                } else {
                    ctx.log(&format!("renew_begin>{}", l2::recv_kind(&r)), "");
                }
            }
            "renew_end" => {
                if let Some(resp) = held_response.take() {
                    let _ = c.apply_opn_response(&resp);
                    ctx.log("renew_end", "");
                }
            }
            _ => {}
        }
    }
    ctx.advance(5000 * steps.len() as u64);
}
