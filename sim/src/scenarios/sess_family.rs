//! Session family: C19 (only activated sessions on their own channel can use services) and C20
//! (activation authenticates the user exactly as configured). L2: raw client(s) against the real
//! server tasks; the wall clock follows the paused tokio clock so session time-outs cost nothing.

use crate::ctx::Ctx;
use crate::framework::{Info, Scenario, Tier};
use crate::l2::{self, Conn, Recv, ServerSpec};
use crate::rng::Rng;
use opcua::core::supported_message::SupportedMessage;
use opcua::crypto::SecurityPolicy;
use opcua::server::address_space::variable::VariableBuilder;
use opcua::server::prelude::Server;
use opcua::types::*;
use serde_json::{json, Value};
use std::time::Duration;

pub struct Sess {
    pub id: &'static str,
}

// ------------------------------------------------------------------------------------------
// C19

#[derive(Clone)]
struct SessModel {
    token: NodeId,
    conn: usize,
    activated: bool,
    closed: bool,
    channel_id: u32,
    timeout_ms: f64,
    /// virtual ms of the latest request of any kind that carried this token
    last_request_ms: u64,
    terminated_by_timeout: bool,
}

struct W19 {
    server: Server,
    conns: Vec<Conn>,
    sessions: Vec<SessModel>,
    var: NodeId,
    var_value: i32,
    t0: tokio::time::Instant,
}

impl W19 {
    fn now_ms(&self) -> u64 {
        (tokio::time::Instant::now() - self.t0).as_millis() as u64
    }
    fn digest(&self) -> String {
        let aspace = self.server.address_space();
        let a = aspace.read();
        let v = a.get_variable_value(self.var.clone()).ok().and_then(|d| d.value).map(|v| format!("{:?}", v)).unwrap_or_default();
        let mut nodes = String::new();
        for i in 0..8 {
            let n = NodeId::new(self.var.namespace, format!("added{}", i));
            nodes.push(if a.node_exists(&n) { '1' } else { '0' });
        }
        let cur = a.get_variable_value(VariableId::Server_ServerDiagnostics_ServerDiagnosticsSummary_CurrentSubscriptionCount).ok().and_then(|d| d.value).map(|v| format!("{:?}", v)).unwrap_or_default();
        let cum = a.get_variable_value(VariableId::Server_ServerDiagnostics_ServerDiagnosticsSummary_CumulatedSubscriptionCount).ok().and_then(|d| d.value).map(|v| format!("{:?}", v)).unwrap_or_default();
        format!("v={} nodes={} subs={}/{}", v, nodes, cur, cum)
    }
}

fn service_request(kind: &str, hdr: RequestHeader, var: &NodeId, value: i32, k: u64) -> SupportedMessage {
    match kind {
        "write" => WriteRequest {
            request_header: hdr,
            nodes_to_write: Some(vec![WriteValue {
                node_id: var.clone(),
                attribute_id: AttributeId::Value as u32,
                index_range: UAString::null(),
                value: DataValue::value_only(Variant::Int32(value)),
            }]),
        }
        .into(),
        "browse" => BrowseRequest {
            request_header: hdr,
            view: ViewDescription {
                view_id: NodeId::null(),
                timestamp: DateTime::null(),
                view_version: 0,
            },
            requested_max_references_per_node: 10,
            nodes_to_browse: Some(vec![BrowseDescription {
                node_id: ObjectId::ObjectsFolder.into(),
                browse_direction: BrowseDirection::Forward,
                reference_type_id: ReferenceTypeId::HierarchicalReferences.into(),
                include_subtypes: true,
                node_class_mask: 0,
                result_mask: 0x3f,
            }]),
        }
        .into(),
        "add_nodes" => AddNodesRequest {
            request_header: hdr,
            nodes_to_add: Some(vec![AddNodesItem {
                parent_node_id: NodeId::from(&ObjectId::ObjectsFolder).into(),
                reference_type_id: ReferenceTypeId::Organizes.into(),
                requested_new_node_id: NodeId::new(var.namespace, format!("added{}", k % 8)).into(),
                browse_name: QualifiedName::new(0, format!("added{}", k % 8)),
                node_class: NodeClass::Object,
                node_attributes: ExtensionObject::from_encodable(
                    ObjectId::ObjectAttributes_Encoding_DefaultBinary,
                    &ObjectAttributes {
                        specified_attributes: (AttributesMask::DISPLAY_NAME | AttributesMask::DESCRIPTION | AttributesMask::EVENT_NOTIFIER | AttributesMask::WRITE_MASK | AttributesMask::USER_WRITE_MASK).bits(),
                        display_name: LocalizedText::from("added"),
                        description: LocalizedText::from("d"),
                        write_mask: 0,
                        user_write_mask: 0,
                        event_notifier: 0,
                    },
                ),
                type_definition: ExpandedNodeId::from(NodeId::from(&ObjectTypeId::BaseObjectType)),
            }]),
        }
        .into(),
        "create_sub" => CreateSubscriptionRequest {
            request_header: hdr,
            requested_publishing_interval: 1000.0,
            requested_lifetime_count: 100,
            requested_max_keep_alive_count: 10,
            max_notifications_per_publish: 0,
            publishing_enabled: true,
            priority: 0,
        }
        .into(),
        "call" => CallRequest {
            request_header: hdr,
            methods_to_call: Some(vec![CallMethodRequest {
                object_id: ObjectId::Server.into(),
                method_id: MethodId::Server_GetMonitoredItems.into(),
                input_arguments: Some(vec![Variant::UInt32(1)]),
            }]),
        }
        .into(),
        "publish" => PublishRequest {
            request_header: hdr,
            subscription_acknowledgements: None,
        }
        .into(),
        _ => ReadRequest {
            request_header: hdr,
            max_age: 0.0,
            timestamps_to_return: TimestampsToReturn::Neither,
            nodes_to_read: Some(vec![ReadValueId {
                node_id: var.clone(),
                attribute_id: AttributeId::Value as u32,
                index_range: UAString::null(),
                data_encoding: QualifiedName::null(),
            }]),
        }
        .into(),
    }
}

fn exec_c19(plan: &Value, ctx: &mut Ctx) {
    let rt = l2::runtime(plan["tseed"].as_u64().unwrap_or(1));
    rt.block_on(async {
        crate::hooks::follow_tokio();
        let server = l2::build_server(&ServerSpec::default());
        let var;
        {
            let aspace = server.address_space();
            let mut a = aspace.write();
            let ns = a.register_namespace("urn:sim:sess").unwrap_or(2);
            var = NodeId::new(ns, "v");
            VariableBuilder::new(&var, "v", "v").data_type(DataTypeId::Int32).value(0i32).organized_by(ObjectId::ObjectsFolder).writable().insert(&mut a);
        }
        let t0 = tokio::time::Instant::now();
        let nconn = plan["conns"].as_u64().unwrap_or(1).max(1) as usize;
        let mut conns = Vec::new();
        for i in 0..nconn {
            let mut c = Conn::connect(&server, 100.0, 1 << 20, 52000 + i as u16);
            if !matches!(c.hello().await, Recv::Ack(_)) {
                return;
            }
            c.prepare_channel(SecurityPolicy::None, MessageSecurityMode::None, 2048);
            if !matches!(c.open(false, 3_600_000).await, Recv::Msg(_, SupportedMessage::OpenSecureChannelResponse(_))) {
                return;
            }
            conns.push(c);
        }
        let mut w = W19 {
            server,
            conns,
            sessions: Vec::new(),
            var,
            var_value: 0,
            t0,
        };
        let steps = plan["steps"].as_array().cloned().unwrap_or_default();
        for (i, s) in steps.iter().enumerate() {
            ctx.step(i);
            let op = s["op"].as_str().unwrap_or("");
            let ci = (s["conn"].as_u64().unwrap_or(0) as usize) % w.conns.len();
            if !w.conns[ci].is_open() {
                continue;
            }
            match op {
                "create_session" => {
                    let timeout = s["timeout"].as_f64().unwrap_or(60000.0);
                    let saved = (w.conns[ci].auth_token.clone(), w.conns[ci].session_id.clone(), w.conns[ci].server_nonce.clone());
                    w.conns[ci].auth_token = NodeId::null();
                    let r = w.conns[ci].create_session(timeout).await;
                    if let Recv::Msg(_, SupportedMessage::CreateSessionResponse(resp)) = &r {
                        let now = w.now_ms();
                        w.sessions.push(SessModel {
                            token: resp.authentication_token.clone(),
                            conn: ci,
                            activated: false,
                            closed: false,
                            channel_id: w.conns[ci].chan.secure_channel_id(),
                            timeout_ms: resp.revised_session_timeout,
                            last_request_ms: now,
                            terminated_by_timeout: false,
                        });
                    } else {
                        w.conns[ci].auth_token = saved.0;
                        w.conns[ci].session_id = saved.1;
                        w.conns[ci].server_nonce = saved.2;
                    }
                    ctx.log(&format!("create_session>{}", l2::recv_kind(&r)), "");
                }
                "activate" => {
                    if w.sessions.is_empty() {
                        continue;
                    }
                    let k = (s["sess"].as_u64().unwrap_or(0) as usize) % w.sessions.len();
                    let good = s["good"].as_bool().unwrap_or(true);
                    let token = if good {
                        Conn::anonymous_token()
                    } else {
                        ExtensionObject::from_encodable(
                            ObjectId::AnonymousIdentityToken_Encoding_DefaultBinary,
                            &AnonymousIdentityToken {
                                policy_id: UAString::from("not-a-policy"),
                            },
                        )
                    };
                    w.conns[ci].auth_token = w.sessions[k].token.clone();
                    let now = w.now_ms();
                    let elapsed = now - w.sessions[k].last_request_ms;
                    let r = w.conns[ci].activate_session(token).await;
                    let okresp = matches!(r, Recv::Msg(_, SupportedMessage::ActivateSessionResponse(_)));
                    let m = &mut w.sessions[k];
                    if okresp {
                        if m.closed {
                            ctx.violate("C19", "closed-session-activated", "", "ActivateSession succeeded with the token of a closed session".to_string());
                        }
                        m.activated = true;
                        m.channel_id = w.conns[ci].chan.secure_channel_id();
                        m.conn = ci;
                    } else if matches!(r, Recv::Msg(_, _)) {
                        // a failed activation deactivates the session
                        m.activated = false;
                        if m.timeout_ms > 0.0 && elapsed as f64 > m.timeout_ms {
                            m.terminated_by_timeout = true;
                        }
                    }
                    m.last_request_ms = now;
                    ctx.log(&format!("activate({})>{}", good, l2::recv_kind(&r)), &format!("t={}", now));
                }
                "close_session" => {
                    if w.sessions.is_empty() {
                        continue;
                    }
                    let k = (s["sess"].as_u64().unwrap_or(0) as usize) % w.sessions.len();
                    let mut hdr = w.conns[ci].header();
                    hdr.authentication_token = w.sessions[k].token.clone();
                    let req: SupportedMessage = CloseSessionRequest {
                        request_header: hdr,
                        delete_subscriptions: true,
                    }
                    .into();
                    let r = w.conns[ci].call(req).await;
                    if matches!(r, Recv::Msg(_, SupportedMessage::CloseSessionResponse(_))) {
                        w.sessions[k].closed = true;
                        w.sessions[k].activated = false;
                        ctx.probe("session_closed");
                    }
                    ctx.log(&format!("close_session>{}", l2::recv_kind(&r)), "");
                }
                "reissue_channel" => {
                    // a second OPN(Issue) on the same connection gives the connection a new channel id
                    let r = w.conns[ci].open(false, 3_600_000).await;
                    ctx.fault("channel_id_changed");
                    ctx.log(&format!("reissue_channel>{}", l2::recv_kind(&r)), &format!("id={}", w.conns[ci].chan.secure_channel_id()));
                }
                "sleep" => {
                    let ms = s["ms"].as_u64().unwrap_or(1000);
                    tokio::time::sleep(Duration::from_millis(ms)).await;
                    ctx.log("sleep", &format!("{}", ms));
                }
                "request" => {
                    let kind = s["kind"].as_str().unwrap_or("read");
                    let which = s["token"].as_str().unwrap_or("current");
                    let k = if w.sessions.is_empty() { 0 } else { (s["sess"].as_u64().unwrap_or(0) as usize) % w.sessions.len() };
                    let (token, model): (NodeId, Option<usize>) = match which {
                        "null" => (NodeId::null(), None),
                        "random" => (NodeId::new(0, ByteString::from(vec![(i as u8).wrapping_mul(7); 32])), None),
                        _ => {
                            if w.sessions.is_empty() {
                                (NodeId::null(), None)
                            } else {
                                (w.sessions[k].token.clone(), Some(k))
                            }
                        }
                    };
                    if which != "current" {
                        ctx.fault("forged_or_null_token");
                    }
                    let now = w.now_ms();
                    // the model's verdict
                    let mut authorised = false;
                    let mut reason = "unknown token";
                    let mut boundary = false;
                    if let Some(k) = model {
                        let m = &w.sessions[k];
                        let elapsed = (now - m.last_request_ms) as f64;
                        boundary = m.timeout_ms > 0.0 && (elapsed - m.timeout_ms).abs() <= 3.0;
                        if m.closed {
                            reason = "session closed";
                            ctx.fault("token_of_closed_session");
                        } else if !m.activated {
                            reason = "session not activated";
                            ctx.fault("token_of_unactivated_session");
                        } else if m.conn != ci {
                            reason = "session belongs to another connection";
                            ctx.fault("token_of_other_connection");
                        } else if m.channel_id != w.conns[ci].chan.secure_channel_id() {
                            reason = "session bound to another secure channel";
                        } else if m.terminated_by_timeout || (m.timeout_ms > 0.0 && elapsed > m.timeout_ms) {
                            reason = "session timed out";
                            ctx.fault("session_timeout_elapsed");
                        } else {
                            authorised = true;
                            reason = "";
                        }
                    }
                    let before = w.digest();
                    let mut hdr = w.conns[ci].header();
                    hdr.authentication_token = token;
                    let newv = w.var_value + 1;
                    let req = service_request(kind, hdr, &w.var, newv, i as u64);
                    let id = w.conns[ci].send_message(&req).await;
                    let r = match id {
                        Some(id) => {
                            if kind == "publish" {
                                w.conns[ci].recv_for(id, Duration::from_millis(150)).await
                            } else {
                                w.conns[ci].recv_for(id, Duration::from_secs(5)).await
                            }
                        }
                        None => Recv::Eof,
                    };
                    let after = w.digest();
                    let is_fault = matches!(&r, Recv::Msg(_, SupportedMessage::ServiceFault(_)));
                    let mut carried_out = matches!(&r, Recv::Msg(_, m) if !matches!(m, SupportedMessage::ServiceFault(_)));
                    if let Recv::Msg(_, m) = &r {
                        let expected = match kind {
                            "write" => "WriteResponse",
                            "browse" => "BrowseResponse",
                            "add_nodes" => "AddNodesResponse",
                            "create_sub" => "CreateSubscriptionResponse",
                            "call" => "CallResponse",
                            "publish" => "PublishResponse",
                            _ => "ReadResponse",
                        };
                        let got = l2::msg_kind(m);
                        if carried_out && got != expected {
                            // a response that does not answer this request at all (request ids are per connection)
                            ctx.violate("C21", "response-on-wrong-connection", "", format!("{} request on connection {} was answered with {}", kind, ci, got));
                            carried_out = false;
                        }
                    }
                    if let Some(k) = model {
                        let m = &mut w.sessions[k];
                        if !authorised && m.timeout_ms > 0.0 && (now - m.last_request_ms) as f64 > m.timeout_ms && !m.closed {
                            m.terminated_by_timeout = true;
                        }
                        m.last_request_ms = now;
                    }
                    if !authorised && !boundary {
                        let cross = reason == "session belongs to another connection";
                        let clause_prefix = if cross { "cross-connection-" } else { "" };
                        if carried_out || (kind == "publish" && matches!(r, Recv::Timeout)) {
                            ctx.violate(
                                "C19",
                                &format!("{}service-carried-out", clause_prefix),
                                reason.replace(' ', "-").as_str(),
                                format!("{} request with a token that is not authorised ({}) was answered with {}", kind, reason, l2::recv_kind(&r)),
                            );
                        } else if is_fault && before != after {
                            ctx.violate(
                                "C19",
                                &format!("{}rejected-request-changed-state", clause_prefix),
                                reason.replace(' ', "-").as_str(),
                                format!("{} request was refused ({}) but the server state changed: {} -> {}", kind, reason, before, after),
                            );
                        }
                    }
                    if authorised && carried_out && kind == "write" {
                        if let Recv::Msg(_, SupportedMessage::WriteResponse(resp)) = &r {
                            if resp.results.as_ref().map(|v| v[0].is_good()).unwrap_or(false) {
                                w.var_value = newv;
                            }
                        }
                    }
                    if authorised {
                        ctx.probe("authorised_request");
                    }
                    ctx.log(&format!("request({},{},{})>{}", kind, which, if authorised { "auth" } else { reason }, l2::recv_kind(&r)), &format!("t={}", now));
                }
                _ => {}
            }
            tokio::time::sleep(Duration::from_millis(1)).await;
        }
        ctx.advance(w.now_ms() * 1000);
    });
}

fn gen_c19(rng: &mut Rng, tier: Tier) -> Value {
    let mut steps = Vec::new();
    let cross = rng.chance(0.15);
    let nconn = if cross { 2 } else { 1 };
    let timeout = *rng.pick(&[500.0, 2000.0, 10_000.0, 60_000.0, 0.0]);
    // often start with a valid prefix
    if rng.chance(0.8) {
        steps.push(json!({"op": "create_session", "timeout": timeout, "conn": 0}));
        if rng.chance(0.8) {
            steps.push(json!({"op": "activate", "sess": 0, "good": true, "conn": 0}));
        }
    }
    let kinds = ["read", "write", "browse", "add_nodes", "create_sub", "call", "publish"];
    let len = if tier == Tier::Thorough { rng.urange(4, 30) } else { rng.urange(3, 16) };
    for _ in 0..len {
        let conn = rng.below(nconn);
        match rng.below(20) {
            0..=1 => steps.push(json!({"op": "create_session", "timeout": *rng.pick(&[500.0, 2000.0, 60_000.0]), "conn": conn})),
            2..=3 => steps.push(json!({"op": "activate", "sess": rng.below(3), "good": rng.chance(0.75), "conn": conn})),
            4 => steps.push(json!({"op": "close_session", "sess": rng.below(3), "conn": conn})),
            5 => steps.push(json!({"op": "reissue_channel", "conn": conn})),
            6..=7 => steps.push(json!({"op": "sleep", "ms": *rng.pick(&[10u64, 400, 497, 503, 600, 1990, 2010, 2500, 61_000])})),
            _ => steps.push(json!({"op": "request", "kind": *rng.pick(&kinds), "token": *rng.pick(&["current", "current", "current", "current", "null", "random"]), "sess": rng.below(3), "conn": conn})),
        }
    }
    json!({"conns": nconn, "tseed": rng.next_u64() >> 12, "steps": steps})
}

// ------------------------------------------------------------------------------------------
// C20

const USERS: [(&str, &str, Option<&str>); 3] = [("u0", "alice", Some("secret")), ("u1", "bob", Some("")), ("u2", "carol", Some("pässwörd"))];

fn user_policy_id(pp: SecurityPolicy) -> &'static str {
    match pp {
        SecurityPolicy::None => "userpass_none",
        SecurityPolicy::Basic128Rsa15 => "userpass_rsa_15",
        _ => "userpass_rsa_oaep",
    }
}

fn exec_c20(plan: &Value, ctx: &mut Ctx) {
    let rt = l2::runtime(plan["tseed"].as_u64().unwrap_or(1));
    rt.block_on(async {
        crate::hooks::follow_tokio();
        let policy = crate::wire::policy_by_name(plan["policy"].as_str().unwrap_or("None"));
        let mode = if policy == SecurityPolicy::None { MessageSecurityMode::None } else { crate::wire::mode_by_name(plan["mode"].as_str().unwrap_or("Sign")) };
        let pw_policy_name = plan["password_policy"].as_str().map(|s| s.to_string());
        let anonymous = plan["anonymous"].as_bool().unwrap_or(true);
        let allowed: Vec<usize> = plan["allowed_users"].as_array().map(|a| a.iter().map(|x| x.as_u64().unwrap_or(0) as usize % 3).collect()).unwrap_or_default();
        let mut spec = ServerSpec::default();
        spec.endpoints = vec![(policy, mode)];
        spec.anonymous = false;
        spec.users = USERS.iter().map(|(id, u, p)| (id.to_string(), u.to_string(), p.map(|s| s.to_string()))).collect();
        let mut ids: Vec<String> = allowed.iter().map(|i| USERS[*i].0.to_string()).collect();
        if anonymous {
            ids.push("ANONYMOUS".to_string());
        }
        // two X.509 users (certificates of the fixture identities c and a), a subset allowed here
        spec.x509_users = vec![("x0".to_string(), "xavier".to_string(), "c".to_string()), ("x1".to_string(), "xenia".to_string(), "a".to_string())];
        let allowed_x509: Vec<usize> = plan["allowed_x509"].as_array().map(|a| a.iter().map(|x| x.as_u64().unwrap_or(0) as usize % 2).collect()).unwrap_or_default();
        for i in allowed_x509.iter() {
            ids.push(format!("x{}", i));
        }
        spec.endpoint_tokens = Some(vec![ids]);
        spec.endpoint_password_policy = Some(vec![pw_policy_name.clone()]);
        let pw_policy = match &pw_policy_name {
            Some(n) => crate::wire::policy_by_name(n),
            None => policy,
        };
        let server = l2::build_server(&spec);
        let mut c = Conn::connect(&server, 100.0, 1 << 20, 53000);
        if !matches!(c.hello().await, Recv::Ack(_)) {
            return;
        }
        c.prepare_channel(policy, mode, 2048);
        if !matches!(c.open(false, 3_600_000).await, Recv::Msg(_, SupportedMessage::OpenSecureChannelResponse(_))) {
            ctx.log("open-failed", "");
            return;
        }
        if !matches!(c.create_session(60_000.0).await, Recv::Msg(_, SupportedMessage::CreateSessionResponse(_))) {
            ctx.log("create-session-failed", "");
            return;
        }
        let server_cert = crate::wire::identity(2048, "b").cert.clone();
        // tokens made earlier: (token, nonce it was encrypted for, user index, password correct)
        let mut earlier: Vec<(UserNameIdentityToken, Vec<u8>, usize, bool, SignatureData)> = Vec::new();
        let steps = plan["steps"].as_array().cloned().unwrap_or_default();
        for (i, s) in steps.iter().enumerate() {
            ctx.step(i);
            if !c.is_open() {
                break;
            }
            let kind = s["kind"].as_str().unwrap_or("anon");
            let nonce_now: Vec<u8> = c.server_nonce.value.clone().unwrap_or_default();
            // (token object, model verdict: may this be accepted?, description)
            let mut replay_sig: Option<SignatureData> = None;
            let mut x509_sig = SignatureData::null();
            let (token, acceptable, desc): (ExtensionObject, bool, String) = match kind {
                "anon" => {
                    let pid = if s["right_policy_id"].as_bool().unwrap_or(true) { "anonymous" } else { "anon2" };
                    (
                        ExtensionObject::from_encodable(ObjectId::AnonymousIdentityToken_Encoding_DefaultBinary, &AnonymousIdentityToken { policy_id: UAString::from(pid) }),
                        anonymous && pid == "anonymous",
                        format!("anonymous(policy_id={})", pid),
                    )
                }
                "user" | "replay" => {
                    let ui = (s["user"].as_u64().unwrap_or(0) as usize) % 5; // 3 = unknown user, 4 = the name of an X.509 user with an empty password
                    let (uname, upass): (String, Option<String>) = if ui < 3 {
                        (USERS[ui].1.to_string(), USERS[ui].2.map(|p| p.to_string()))
                    } else if ui == 4 {
                        ("xavier".to_string(), Some(String::new()))
                    } else {
                        ("mallory".to_string(), Some("x".to_string()))
                    };
                    let right_pw = s["right_password"].as_bool().unwrap_or(true);
                    let pass = if right_pw { upass.clone().unwrap_or_default() } else { format!("{}x", upass.clone().unwrap_or_default()) };
                    let right_pid = s["right_policy_id"].as_bool().unwrap_or(true);
                    let pid = if right_pid { user_policy_id(pw_policy) } else { "userpass_bogus" };
                    let configured = ui < 3 && allowed.contains(&ui);
                    if kind == "replay" {
                        if earlier.is_empty() {
                            continue;
                        }
                        ctx.fault("replayed_password_token");
                        let (tok, made_for, eui, epw, old_sig) = earlier[(s["which"].as_u64().unwrap_or(0) as usize) % earlier.len()].clone();
                        // a whole replayed request carries the client signature made for the old nonce
                        if s["whole_request"].as_bool().unwrap_or(false) {
                            replay_sig = Some(old_sig);
                        }
                        let same_nonce = made_for == nonce_now;
                        if !same_nonce {
                            ctx.probe("replay_after_nonce_rotation");
                        }
                        let conf = eui < 3 && allowed.contains(&eui);
                        (
                            ExtensionObject::from_encodable(ObjectId::UserNameIdentityToken_Encoding_DefaultBinary, &tok),
                            same_nonce && conf && epw,
                            format!("replay(user={},made_for_current_nonce={})", eui, same_nonce),
                        )
                    } else if pw_policy == SecurityPolicy::None || s["plain"].as_bool().unwrap_or(false) {
                        let tok = UserNameIdentityToken {
                            policy_id: UAString::from(pid),
                            user_name: UAString::from(uname.as_str()),
                            password: ByteString::from(pass.as_bytes()),
                            encryption_algorithm: UAString::null(),
                        };
                        (
                            ExtensionObject::from_encodable(ObjectId::UserNameIdentityToken_Encoding_DefaultBinary, &tok),
                            configured && right_pw && right_pid,
                            format!("user(plain,user={},right_pw={},right_pid={})", ui, right_pw, right_pid),
                        )
                    } else {
                        let mangle = s["mangle"].as_str().unwrap_or("none");
                        let nonce_used: Vec<u8> = if mangle == "wrong_nonce" { vec![0x55; nonce_now.len().max(8)] } else if mangle == "short_plaintext" { Vec::new() } else { nonce_now.clone() };
                        let pass = if mangle == "short_plaintext" { String::new() } else { pass };
                        let enc = opcua::crypto::user_identity::legacy_password_encrypt(&pass, &nonce_used, &server_cert, pw_policy.asymmetric_encryption_padding());
                        let mut password = match enc {
                            Ok(p) => p,
                            Err(_) => continue,
                        };
                        let mut alg = UAString::from(pw_policy.asymmetric_encryption_algorithm());
                        let mut ok_shape = true;
                        match mangle {
                            "truncate" => {
                                let mut v = password.value.clone().unwrap_or_default();
                                v.truncate(v.len() / 2 + 3);
                                password = ByteString::from(v);
                                ok_shape = false;
                                ctx.fault("malformed_ciphertext");
                            }
                            "garbage" => {
                                password = ByteString::from(vec![0xA5u8; 256]);
                                ok_shape = false;
                                ctx.fault("malformed_ciphertext");
                            }
                            "short" => {
                                password = ByteString::from(vec![1u8, 2, 3]);
                                ok_shape = false;
                                ctx.fault("malformed_ciphertext");
                            }
                            "wrong_alg" => {
                                alg = UAString::from("http://example.org/not-an-algorithm");
                                ok_shape = false;
                            }
                            "short_plaintext" => {
                                // a well-formed ciphertext whose plaintext is shorter than the server nonce
                                ok_shape = nonce_now.is_empty() && upass.as_deref() == Some("");
                                ctx.fault("malformed_ciphertext");
                            }
                            "wrong_nonce" => {
                                ok_shape = nonce_used == nonce_now;
                                ctx.fault("token_for_other_nonce");
                            }
                            _ => {}
                        }
                        let tok = UserNameIdentityToken {
                            policy_id: UAString::from(pid),
                            user_name: UAString::from(uname.as_str()),
                            password,
                            encryption_algorithm: alg,
                        };
                        if mangle == "none" {
                            earlier.push((tok.clone(), nonce_now.clone(), ui, right_pw && right_pid, c.client_signature()));
                        }
                        (
                            ExtensionObject::from_encodable(ObjectId::UserNameIdentityToken_Encoding_DefaultBinary, &tok),
                            if mangle == "short_plaintext" { configured && right_pid && ok_shape } else { configured && right_pw && right_pid && ok_shape },
                            format!("user(encrypted,user={},right_pw={},right_pid={},mangle={})", ui, right_pw, right_pid, mangle),
                        )
                    }
                }
                "x509" => {
                    // which certificate: 0 = user x0 (identity c), 1 = user x1 (identity a), 2 = nobody's (the server's own)
                    let which = (s["which"].as_u64().unwrap_or(0) as usize) % 3;
                    let ident = crate::wire::identity(2048, ["c", "a", "b"][which]);
                    let sign = s["sign"].as_str().unwrap_or("right");
                    let right_pid = s["right_policy_id"].as_bool().unwrap_or(true);
                    let signer = if sign == "wrong_key" { crate::wire::identity(2048, ["a", "c", "c"][which]) } else { ident.clone() };
                    let nonce_for_sig = if sign == "wrong_nonce" { ByteString::from(vec![0x33u8; nonce_now.len().max(8)]) } else { ByteString::from(nonce_now.clone()) };
                    x509_sig = if sign == "none" {
                        SignatureData::null()
                    } else {
                        // the server verifies X.509 user tokens with the policy it advertises for them
                        opcua::crypto::create_signature_data(&signer.key(), SecurityPolicy::Basic128Rsa15, &server_cert.as_byte_string(), &nonce_for_sig).unwrap_or_else(|_| SignatureData::null())
                    };
                    ctx.fault(match sign {
                        "right" => "x509_token",
                        _ => "x509_token_bad_signature",
                    });
                    let tok = X509IdentityToken { policy_id: UAString::from(if right_pid { "x509" } else { "x509_other" }), certificate_data: ident.cert.as_byte_string() };
                    let configured = which < 2 && allowed_x509.contains(&which);
                    // a wrong-nonce signature is only wrong when there is a nonce
                    let sig_ok = sign == "right" || (sign == "wrong_nonce" && nonce_now.is_empty());
                    (
                        ExtensionObject::from_encodable(ObjectId::X509IdentityToken_Encoding_DefaultBinary, &tok),
                        configured && sig_ok && right_pid,
                        format!("x509(cert={},sign={},right_pid={})", which, sign, right_pid),
                    )
                }
                // Part 4: a null / empty user identity token means anonymous
                _ => (ExtensionObject::null(), anonymous, "null-token".to_string()),
            };
            let nonce_before = c.server_nonce.clone();
            let r = match replay_sig.take() {
                Some(sig) => c.activate_session_signed(token, sig).await,
                None => {
                    let cs = c.client_signature();
                    c.activate_session_full(token, cs, x509_sig).await
                }
            };
            let good = matches!(r, Recv::Msg(_, SupportedMessage::ActivateSessionResponse(_)));
            // the nonce a token is bound to has to change with every successful activation,
            // otherwise the activation that was just accepted can be replayed as it is
            if good && policy != SecurityPolicy::None && !nonce_before.is_null() && c.server_nonce == nonce_before {
                ctx.violate("C20", "replayed-token-accepted", "nonce-not-rotated", format!("ActivateSession succeeded with {} and returned the same server nonce as before: a token made for the earlier nonce stays valid", desc));
            }
            if good {
                ctx.probe("activation_succeeded");
                if kind == "x509" {
                    ctx.probe("x509_activation_succeeded");
                }
            } else if kind == "x509" && acceptable {
                ctx.probe("x509_activation_refused_although_acceptable");
            }
            if good && !acceptable {
                let clause = if kind == "replay" { "replayed-token-accepted" } else { "unconfigured-activation-accepted" };
                let disc = desc.split('(').next().unwrap_or("").to_string();
                ctx.violate("C20", clause, &disc, format!("ActivateSession succeeded with {} on endpoint (policy {}, anonymous={}, allowed users {:?})", desc, crate::wire::policy_name(policy), anonymous, allowed));
            }
            ctx.log(&format!("activate[{}]>{}", desc, l2::recv_kind(&r)), "");
            tokio::time::sleep(Duration::from_millis(1)).await;
        }
        ctx.advance(1000 * steps.len() as u64);
    });
}

fn gen_c20(rng: &mut Rng, tier: Tier) -> Value {
    // small configuration universe
    let policy = *rng.pick(&["None", "None", "Basic256Sha256", "Basic128Rsa15", "Aes128Sha256RsaOaep"]);
    let mode = *rng.pick(&["Sign", "SignAndEncrypt"]);
    let password_policy: Value = if policy == "None" { json!(*rng.pick(&["None", "Basic256Sha256", "Basic128Rsa15", "Basic256"])) } else { Value::Null };
    let mut allowed = Vec::new();
    for u in 0..3 {
        if rng.chance(0.6) {
            allowed.push(u);
        }
    }
    let len = if tier == Tier::Thorough { rng.urange(2, 14) } else { rng.urange(2, 8) };
    let mut steps = Vec::new();
    for _ in 0..len {
        match rng.below(10) {
            0..=1 => steps.push(json!({"kind": "anon", "right_policy_id": rng.chance(0.8)})),
            2..=6 => steps.push(json!({"kind": "user", "user": rng.below(5), "right_password": rng.chance(0.7), "right_policy_id": rng.chance(0.9), "plain": rng.chance(0.1),
                                      "mangle": *rng.pick(&["none", "none", "none", "none", "truncate", "garbage", "short", "wrong_alg", "wrong_nonce", "short_plaintext"])})),
            7 => steps.push(json!({"kind": "replay", "which": rng.below(4), "whole_request": rng.chance(0.5)})),
            8 => {
                if rng.chance(0.5) {
                    steps.push(json!({"kind": "replay", "which": rng.below(4), "whole_request": rng.chance(0.5)}));
                } else {
                    steps.push(json!({"kind": "x509", "which": rng.below(3), "sign": *rng.pick(&["right", "right", "right", "wrong_key", "wrong_nonce", "none"]), "right_policy_id": rng.chance(0.9)}));
                }
            }
            _ => steps.push(json!({"kind": "null"})),
        }
    }
    let allowed_x509: Vec<u64> = (0..2u64).filter(|_| rng.chance(0.5)).collect();
    json!({"policy": policy, "mode": mode, "password_policy": password_policy, "anonymous": rng.chance(0.5), "allowed_users": allowed, "allowed_x509": allowed_x509, "tseed": rng.next_u64() >> 12, "steps": steps})
}

impl Scenario for Sess {
    fn id(&self) -> &'static str {
        self.id
    }
    fn info(&self) -> Info {
        if self.id == "C19" {
            Info {
                level: "exploration",
                exhaustive: false,
                layer: "L2 (real server tasks, raw client, paused clock)",
                rule: "run = seeded history of CreateSession / ActivateSession (good, bad) / CloseSession / service requests (Read, Write, Browse, AddNodes, CreateSubscription, Call, Publish) carrying a current, closed, unactivated, forged or null token / secure-channel re-issue / virtual sleeps around the session time-out; 15% of runs add a second connection (reported under separate cross-connection clauses). Oracle (one direction): if the authorisation model says no, the answer is a ServiceFault and the state digest (variable value, added nodes, subscription counts) is unchanged. non-trivial = a request with a non-authorised token was sent; distinct = op/outcome hash.",
                real: vec!["MessageHandler::validate_service_request / is_session_activated / is_session_timed_out", "SessionService", "SessionManager", "services reached by the probes", "server transport tasks", "wall clock via verif::clock (follows paused tokio clock)"],
                stubbed: vec!["TCP socket"],
                assumptions: vec!["time-out asserted only when the elapsed time since the latest request of any kind exceeds the revised time-out by more than 3 ms"],
                fault_kinds: vec!["forged_or_null_token", "token_of_closed_session", "token_of_unactivated_session", "token_of_other_connection", "session_timeout_elapsed", "channel_id_changed"],
            }
        } else {
            Info {
                level: "exploration",
                exhaustive: false,
                layer: "L2 (real server tasks, raw client)",
                rule: "run = one generated endpoint configuration (channel policy/mode, password policy, anonymous allowed, subset of 3 users) and a history of ActivateSession calls with anonymous / user-name tokens (right or wrong policy id, user, password; plain or encrypted with the real client-side helper; truncated, garbage or short ciphertext; wrong algorithm; encrypted for another nonce) and replays of earlier valid tokens after the server nonce rotated. Oracle (one direction): Good => the configured condition holds for the session's current nonce. non-trivial = history contains a malformed, replayed or wrong-nonce token; distinct = op/outcome hash.",
                real: vec!["SessionService::activate_session", "ServerState::authenticate_endpoint and token authenticators", "crypto::user_identity (encrypt on the client side, decrypt on the server side)", "secure channel (None and secured policies, RSA 2048)", "server transport tasks"],
                stubbed: vec!["TCP socket"],
                assumptions: vec!["X.509 user tokens are not generated (the configuration universe has user-name and anonymous tokens)"],
                fault_kinds: vec!["malformed_ciphertext", "token_for_other_nonce", "replayed_password_token", "x509_token", "x509_token_bad_signature"],
            }
        }
    }
    fn runs(&self, tier: Tier) -> u64 {
        let t = tier == Tier::Thorough;
        if self.id == "C19" {
            if t { 60_000 } else { 3000 }
        } else if t {
            30_000
        } else {
            1500
        }
    }
    fn gen(&self, seed: u64, run: u64, tier: Tier) -> Value {
        let mut rng = Rng::new(crate::framework::run_seed(seed, self.id, run));
        if self.id == "C19" {
            gen_c19(&mut rng, tier)
        } else {
            gen_c20(&mut rng, tier)
        }
    }
    fn exec(&self, plan: &Value, ctx: &mut Ctx) {
        if self.id == "C19" {
            exec_c19(plan, ctx)
        } else {
            exec_c20(plan, ctx)
        }
    }
    fn panic_property(&self) -> &'static str {
        "C33"
    }
}
