//! C33 No well-formed request from an authenticated client crashes the server.
//!
//! L2 swarm: an activated session (with or without permission to modify the address space) sends
//! structure-aware random requests of every service the handler dispatches, in short sequences,
//! each followed by 0-3 timer ticks; an application actor raises events so that event filters are
//! evaluated. Oracle: every request yields a response or fault, no task panics, and a trailing
//! Read of Server_ServerStatus_State still succeeds.

use crate::ctx::Ctx;
use crate::framework::{Info, Scenario, Tier};
use crate::l2::{self, Conn, Recv, ServerSpec};
use crate::rng::Rng;
use opcua::core::supported_message::SupportedMessage;
use opcua::server::address_space::object::ObjectBuilder;
use opcua::server::address_space::variable::VariableBuilder;
use opcua::server::events::event::{BaseEventType, Event};
use opcua::types::*;
use serde_json::{json, Value};
use std::time::Duration;

pub struct C33;

pub const KINDS: [&str; 28] = [
    "activate",
    "read", "write", "browse", "browse_next", "translate", "register_nodes", "unregister_nodes", "add_nodes", "add_references", "delete_nodes", "delete_references", "call", "create_sub", "modify_sub", "set_publishing",
    "delete_subs", "transfer_subs", "create_items", "modify_items", "set_monitoring_mode", "set_triggering", "delete_items", "publish", "republish", "history_read", "history_update", "query_first",
];

pub struct G<'a> {
    pub r: &'a mut Rng,
    pub ns: u16,
    pub subs: Vec<u32>,
    pub items: Vec<u32>,
    pub cps: Vec<ByteString>,
    pub client_sig: SignatureData,
}

impl<'a> G<'a> {
    fn node(&mut self) -> NodeId {
        match self.r.below(16) {
            0 => NodeId::null(),
            1 => ObjectId::ObjectsFolder.into(),
            2 => ObjectId::Server.into(),
            3 => ObjectId::RootFolder.into(),
            4 => VariableId::Server_ServerStatus_State.into(),
            5 => VariableId::Server_ServerStatus_CurrentTime.into(),
            6 => ObjectTypeId::BaseObjectType.into(),
            7 => ReferenceTypeId::HasComponent.into(),
            8 => MethodId::Server_GetMonitoredItems.into(),
            9 => NodeId::new(self.ns, format!("v{}", self.r.below(3))),
            10 => NodeId::new(self.ns, format!("o{}", self.r.below(3))),
            11 => NodeId::new(self.ns, self.r.below(100) as u32),
            12 => NodeId::new(77, "unknown-namespace"),
            13 => NodeId::new(self.ns, Guid::null()),
            14 => NodeId::new(1, self.r.below(60) as u32),
            _ => NodeId::new(self.ns, ByteString::from(vec![1u8, 2, 3])),
        }
    }
    fn name(&mut self) -> String {
        let names = ["child", "v0", "o1", "a/b", "<x>", "#", "!", "&", ".", ":", "", "1:x", "ünï", "a.b.c", "/", "//", "x&/y", "#!<>", " ", "0:Objects"];
        names[self.r.below(names.len() as u64) as usize].to_string()
    }
    fn qname(&mut self) -> QualifiedName {
        if self.r.chance(0.05) {
            return QualifiedName::null();
        }
        let ns = *self.r.pick(&[0u16, 0, 1, 2, 77, 65535]);
        let n = self.name();
        QualifiedName::new(ns, n)
    }
    fn reftype(&mut self) -> NodeId {
        match self.r.below(8) {
            0 => NodeId::null(),
            1 => ReferenceTypeId::Organizes.into(),
            2 => ReferenceTypeId::HasComponent.into(),
            3 => ReferenceTypeId::HasProperty.into(),
            4 => ReferenceTypeId::HierarchicalReferences.into(),
            5 => ReferenceTypeId::HasTypeDefinition.into(),
            6 => ObjectId::ObjectsFolder.into(), // not a reference type
            _ => {
                if self.r.chance(0.5) {
                    ReferenceTypeId::HasSubtype.into()
                } else {
                    NodeId::new(self.ns, 4242u32)
                }
            }
        }
    }
    fn variant(&mut self, depth: u32) -> Variant {
        match self.r.below(14) {
            0 => Variant::Empty,
            1 => Variant::Boolean(self.r.chance(0.5)),
            2 => Variant::Int32(self.r.next_u32() as i32),
            3 => Variant::UInt32(self.r.next_u32()),
            4 => Variant::Double(f64::from_bits(self.r.next_u64())),
            5 => Variant::String(UAString::from(self.name())),
            6 => Variant::String(UAString::null()),
            7 => Variant::ByteString(ByteString::from(self.r.bytes(5))),
            8 => Variant::NodeId(Box::new(self.node())),
            9 => Variant::from(vec![1i32, 2, 3]),
            10 => Variant::from(Vec::<i32>::new()),
            11 if depth < 2 => Variant::Variant(Box::new(self.variant(depth + 1))),
            12 => Variant::DateTime(Box::new(DateTime::ymd(1601 + self.r.below(8000) as u16, 1, 1))),
            _ => Variant::Int64(i64::MIN + self.r.below(3) as i64),
        }
    }
    fn range(&mut self) -> UAString {
        let v = ["", "", "", "0", "1:2", "5:1", "x", "1,2", "0:4294967295", "-1"];
        let s = v[self.r.below(v.len() as u64) as usize];
        if s.is_empty() {
            UAString::null()
        } else {
            UAString::from(s)
        }
    }
    fn attr(&mut self) -> u32 {
        *self.r.pick(&[13u32, 13, 13, 1, 2, 3, 4, 5, 12, 14, 17, 0, 27, 28, 1000, u32::MAX])
    }
    fn sub_id(&mut self) -> u32 {
        if !self.subs.is_empty() && self.r.chance(0.7) {
            *self.r.pick(&self.subs)
        } else {
            *self.r.pick(&[0u32, 1, 2, 99, u32::MAX])
        }
    }
    fn item_id(&mut self) -> u32 {
        if !self.items.is_empty() && self.r.chance(0.7) {
            *self.r.pick(&self.items)
        } else {
            *self.r.pick(&[0u32, 1, 2, 3, 99, u32::MAX])
        }
    }
    fn simple_attribute_operand(&mut self) -> SimpleAttributeOperand {
        let npath = self.r.below(4);
        if self.r.chance(0.25) {
            // a path that really resolves, to nodes of every class a browse name can lead to (objects,
            // variables, methods, nested variables), starting at a real instance or type
            let (start, path): (NodeId, Vec<&str>) = match self.r.below(10) {
                0 => (ObjectId::Server.into(), vec!["GetMonitoredItems"]),
                1 => (ObjectId::Server.into(), vec!["ResendData"]),
                2 => (ObjectId::Server.into(), vec!["ServerStatus", "CurrentTime"]),
                3 => (ObjectId::Server.into(), vec!["ServerStatus"]),
                4 => (ObjectId::Server.into(), vec!["ServerCapabilities"]),
                5 => (ObjectId::Server.into(), vec!["NamespaceArray"]),
                6 => (ObjectId::RootFolder.into(), vec!["Objects", "Server"]),
                7 => (ObjectId::ObjectsFolder.into(), vec!["Server", "GetMonitoredItems"]),
                8 => (ObjectTypeId::ServerType.into(), vec!["GetMonitoredItems"]),
                _ => (ObjectTypeId::BaseEventType.into(), vec!["EventId"]),
            };
            return SimpleAttributeOperand {
                type_definition_id: start,
                browse_path: Some(path.into_iter().map(|n| QualifiedName::new(0, n)).collect()),
                attribute_id: self.attr(),
                index_range: self.range(),
            };
        }
        SimpleAttributeOperand {
            type_definition_id: if self.r.chance(0.7) { ObjectTypeId::BaseEventType.into() } else { self.node() },
            browse_path: if npath == 3 { None } else { Some((0..npath).map(|_| if self.r.chance(0.6) { QualifiedName::new(0, *self.r.pick(&["EventId", "Message", "Severity", "SourceNode", "Time"])) } else { self.qname() }).collect()) },
            attribute_id: self.attr(),
            index_range: self.range(),
        }
    }
    fn operand(&mut self, nelems: u32) -> ExtensionObject {
        match self.r.below(7) {
            0 => Operand::element(self.r.below(nelems as u64 + 3) as u32).into(),
            1 => Operand::element(u32::MAX).into(),
            2 | 3 => Operand::literal(self.variant(0)).into(),
            4 => Operand::SimpleAttributeOperand(self.simple_attribute_operand()).into(),
            5 => ExtensionObject::from_encodable(
                ObjectId::AttributeOperand_Encoding_DefaultBinary,
                &AttributeOperand {
                    node_id: self.node(),
                    alias: UAString::from("a"),
                    browse_path: RelativePath { elements: None },
                    attribute_id: self.attr(),
                    index_range: self.range(),
                },
            ),
            _ => ExtensionObject::null(),
        }
    }
    fn content_filter(&mut self) -> ContentFilter {
        let n = self.r.below(5) as u32;
        if n == 0 {
            return ContentFilter { elements: None };
        }
        let ops = [
            FilterOperator::Equals, FilterOperator::IsNull, FilterOperator::GreaterThan, FilterOperator::LessThan, FilterOperator::GreaterThanOrEqual, FilterOperator::LessThanOrEqual, FilterOperator::Like, FilterOperator::Not,
            FilterOperator::Between, FilterOperator::InList, FilterOperator::And, FilterOperator::Or, FilterOperator::Cast, FilterOperator::InView, FilterOperator::OfType, FilterOperator::RelatedTo, FilterOperator::BitwiseAnd, FilterOperator::BitwiseOr,
        ];
        let mut elements = Vec::new();
        for _ in 0..n {
            let nops = self.r.below(5);
            elements.push(ContentFilterElement {
                filter_operator: *self.r.pick(&ops),
                filter_operands: if nops == 4 { None } else { Some((0..nops).map(|_| self.operand(n)).collect()) },
            });
        }
        ContentFilter { elements: Some(elements) }
    }
    fn filter(&mut self) -> ExtensionObject {
        match self.r.below(8) {
            0 | 1 => ExtensionObject::null(),
            2 => ExtensionObject::from_encodable(
                ObjectId::DataChangeFilter_Encoding_DefaultBinary,
                &DataChangeFilter {
                    trigger: *self.r.pick(&[DataChangeTrigger::Status, DataChangeTrigger::StatusValue, DataChangeTrigger::StatusValueTimestamp]),
                    deadband_type: self.r.below(4) as u32,
                    deadband_value: *self.r.pick(&[0.0, 1.0, -1.0, f64::NAN, f64::INFINITY]),
                },
            ),
            3..=5 => {
                let nsel = self.r.below(4);
                let select = (0..nsel).map(|_| self.simple_attribute_operand()).collect();
                ExtensionObject::from_encodable(
                    ObjectId::EventFilter_Encoding_DefaultBinary,
                    &EventFilter {
                        select_clauses: if nsel == 3 { None } else { Some(select) },
                        where_clause: self.content_filter(),
                    },
                )
            }
            6 => ExtensionObject::from_encodable(
                ObjectId::AggregateFilter_Encoding_DefaultBinary,
                &AggregateFilter {
                    start_time: DateTime::null(),
                    aggregate_type: NodeId::null(),
                    processing_interval: 0.0,
                    aggregate_configuration: AggregateConfiguration {
                        use_server_capabilities_defaults: true,
                        treat_uncertain_as_bad: false,
                        percent_data_bad: 0,
                        percent_data_good: 0,
                        use_sloped_extrapolation: false,
                    },
                },
            ),
            _ => ExtensionObject {
                node_id: ObjectId::EventFilter_Encoding_DefaultBinary.into(),
                body: ExtensionObjectEncoding::ByteString(ByteString::from(self.r.bytes(9))),
            },
        }
    }
    fn monitoring_parameters(&mut self) -> MonitoringParameters {
        MonitoringParameters {
            client_handle: self.r.next_u32(),
            sampling_interval: *self.r.pick(&[-1.0, 0.0, 100.0, 1.0, f64::NAN, f64::INFINITY, -1e300, 1e300]),
            filter: self.filter(),
            queue_size: *self.r.pick(&[0u32, 1, 2, 10, 1000, u32::MAX]),
            discard_oldest: self.r.chance(0.5),
        }
    }
    fn read_value_id(&mut self) -> ReadValueId {
        let event = self.r.chance(0.3);
        ReadValueId {
            node_id: if event { ObjectId::Server.into() } else { self.node() },
            attribute_id: if event { AttributeId::EventNotifier as u32 } else { self.attr() },
            index_range: self.range(),
            data_encoding: if self.r.chance(0.9) { QualifiedName::null() } else { self.qname() },
        }
    }
    fn node_attributes(&mut self, class: NodeClass) -> ExtensionObject {
        let all = 0x3f_ffffu32;
        match class {
            NodeClass::Object => ExtensionObject::from_encodable(
                ObjectId::ObjectAttributes_Encoding_DefaultBinary,
                &ObjectAttributes {
                    specified_attributes: if self.r.chance(0.7) { (AttributesMask::DISPLAY_NAME | AttributesMask::DESCRIPTION | AttributesMask::EVENT_NOTIFIER | AttributesMask::WRITE_MASK | AttributesMask::USER_WRITE_MASK).bits() } else { self.r.next_u32() & all },
                    display_name: LocalizedText::from("n"),
                    description: LocalizedText::from("d"),
                    write_mask: self.r.next_u32(),
                    user_write_mask: self.r.next_u32(),
                    event_notifier: self.r.below(256) as u8,
                },
            ),
            NodeClass::Variable => ExtensionObject::from_encodable(
                ObjectId::VariableAttributes_Encoding_DefaultBinary,
                &VariableAttributes {
                    specified_attributes: if self.r.chance(0.7) { 0x3ffff & !(AttributesMask::EXECUTABLE | AttributesMask::USER_EXECUTABLE | AttributesMask::CONTAINS_NO_LOOPS | AttributesMask::EVENT_NOTIFIER | AttributesMask::INVERSE_NAME | AttributesMask::IS_ABSTRACT | AttributesMask::SYMMETRIC).bits() } else { self.r.next_u32() & all },
                    display_name: LocalizedText::from("n"),
                    description: LocalizedText::from("d"),
                    write_mask: 0,
                    user_write_mask: 0,
                    value: self.variant(0),
                    data_type: if self.r.chance(0.7) { DataTypeId::Int32.into() } else { self.node() },
                    value_rank: *self.r.pick(&[-1i32, -2, -3, 0, 1, 2, i32::MIN, i32::MAX]),
                    array_dimensions: if self.r.chance(0.7) { None } else { Some(vec![self.r.next_u32(), 0]) },
                    access_level: self.r.below(256) as u8,
                    user_access_level: self.r.below(256) as u8,
                    minimum_sampling_interval: *self.r.pick(&[0.0, -1.0, f64::NAN]),
                    historizing: self.r.chance(0.5),
                },
            ),
            _ => {
                if self.r.chance(0.5) {
                    ExtensionObject::null()
                } else {
                    ExtensionObject::from_encodable(
                        ObjectId::MethodAttributes_Encoding_DefaultBinary,
                        &MethodAttributes {
                            specified_attributes: self.r.next_u32() & all,
                            display_name: LocalizedText::from("m"),
                            description: LocalizedText::null(),
                            write_mask: 0,
                            user_write_mask: 0,
                            executable: true,
                            user_executable: true,
                        },
                    )
                }
            }
        }
    }

    pub fn request(&mut self, kind: &str, hdr: RequestHeader) -> SupportedMessage {
        let n = if self.r.chance(0.1) { 0 } else { self.r.urange(1, 3) };
        match kind {
            "activate" => {
                let server_cert = crate::wire::identity(2048, "b").cert.clone();
                let alg = *self.r.pick(&["http://www.w3.org/2001/04/xmlenc#rsa-oaep", "http://www.w3.org/2001/04/xmlenc#rsa-1_5", "http://opcfoundation.org/UA/security/rsa-oaep-sha2-256", "bogus", ""]);
                let password = match self.r.below(8) {
                    0 => ByteString::null(),
                    1 => ByteString::from(self.r.bytes(3)),
                    2 => ByteString::from(self.r.bytes(256)),
                    3 => ByteString::from(self.r.bytes(257)),
                    4 => ByteString::from(self.r.bytes(100)),
                    5 => ByteString::from(self.r.bytes(512)),
                    // well-formed ciphertext of a plaintext that is shorter than the server nonce
                    6 => opcua::crypto::user_identity::legacy_password_encrypt("", &[], &server_cert, opcua::crypto::RsaPadding::OaepSha1).unwrap_or_else(|_| ByteString::null()),
                    _ => opcua::crypto::user_identity::legacy_password_encrypt("secret", &self.r.bytes(5), &server_cert, opcua::crypto::RsaPadding::Pkcs1).unwrap_or_else(|_| ByteString::null()),
                };
                let token = match self.r.below(4) {
                    0 => crate::l2::Conn::anonymous_token(),
                    1 => ExtensionObject::null(),
                    _ => ExtensionObject::from_encodable(
                        ObjectId::UserNameIdentityToken_Encoding_DefaultBinary,
                        &UserNameIdentityToken {
                            policy_id: UAString::from(*self.r.pick(&["userpass_rsa_oaep", "userpass_rsa_oaep", "userpass_none", "userpass_rsa_15", "x"])),
                            user_name: if self.r.chance(0.9) { UAString::from("alice") } else { UAString::null() },
                            password,
                            encryption_algorithm: if alg.is_empty() { UAString::null() } else { UAString::from(alg) },
                        },
                    ),
                };
                ActivateSessionRequest {
                    request_header: hdr,
                    client_signature: self.client_sig.clone(),
                    client_software_certificates: None,
                    locale_ids: None,
                    user_identity_token: token,
                    user_token_signature: SignatureData::null(),
                }
                .into()
            }
            "read" => ReadRequest {
                request_header: hdr,
                max_age: *self.r.pick(&[0.0, 1.0, -1.0, f64::NAN, 1e300]),
                timestamps_to_return: *self.r.pick(&[TimestampsToReturn::Both, TimestampsToReturn::Neither, TimestampsToReturn::Server, TimestampsToReturn::Source, TimestampsToReturn::Invalid]),
                nodes_to_read: Some((0..n).map(|_| self.read_value_id()).collect()),
            }
            .into(),
            "write" => WriteRequest {
                request_header: hdr,
                nodes_to_write: Some(
                    (0..n)
                        .map(|_| WriteValue {
                            node_id: self.node(),
                            attribute_id: self.attr(),
                            index_range: self.range(),
                            value: DataValue {
                                value: if self.r.chance(0.9) { Some(self.variant(0)) } else { None },
                                status: if self.r.chance(0.8) { None } else { Some(StatusCode::from_bits_truncate(self.r.next_u32())) },
                                source_timestamp: if self.r.chance(0.8) { None } else { Some(DateTime::ymd(9999, 12, 31)) },
                                source_picoseconds: None,
                                server_timestamp: None,
                                server_picoseconds: None,
                            },
                        })
                        .collect(),
                ),
            }
            .into(),
            "browse" => BrowseRequest {
                request_header: hdr,
                view: ViewDescription {
                    view_id: if self.r.chance(0.9) { NodeId::null() } else { self.node() },
                    timestamp: DateTime::null(),
                    view_version: 0,
                },
                requested_max_references_per_node: *self.r.pick(&[0u32, 1, 2, 1000, u32::MAX]),
                nodes_to_browse: Some(
                    (0..n)
                        .map(|_| BrowseDescription {
                            node_id: self.node(),
                            browse_direction: *self.r.pick(&[BrowseDirection::Forward, BrowseDirection::Inverse, BrowseDirection::Both, BrowseDirection::Invalid]),
                            reference_type_id: self.reftype(),
                            include_subtypes: self.r.chance(0.5),
                            node_class_mask: *self.r.pick(&[0u32, 1, 2, 255, u32::MAX]),
                            result_mask: *self.r.pick(&[0x3fu32, 0, u32::MAX]),
                        })
                        .collect(),
                ),
            }
            .into(),
            "browse_next" => BrowseNextRequest {
                request_header: hdr,
                release_continuation_points: self.r.chance(0.3),
                continuation_points: Some((0..n).map(|_| if !self.cps.is_empty() && self.r.chance(0.7) { self.r.pick(&self.cps).clone() } else { ByteString::from(self.r.bytes(6)) }).collect()),
            }
            .into(),
            "translate" => TranslateBrowsePathsToNodeIdsRequest {
                request_header: hdr,
                browse_paths: Some(
                    (0..n)
                        .map(|_| {
                            let ne = self.r.below(4);
                            BrowsePath {
                                starting_node: self.node(),
                                relative_path: RelativePath {
                                    elements: if ne == 3 {
                                        None
                                    } else {
                                        Some(
                                            (0..ne)
                                                .map(|_| RelativePathElement {
                                                    reference_type_id: self.reftype(),
                                                    is_inverse: self.r.chance(0.3),
                                                    include_subtypes: self.r.chance(0.5),
                                                    target_name: self.qname(),
                                                })
                                                .collect(),
                                        )
                                    },
                                },
                            }
                        })
                        .collect(),
                ),
            }
            .into(),
            "register_nodes" => RegisterNodesRequest {
                request_header: hdr,
                nodes_to_register: Some((0..n).map(|_| self.node()).collect()),
            }
            .into(),
            "unregister_nodes" => UnregisterNodesRequest {
                request_header: hdr,
                nodes_to_unregister: Some((0..n).map(|_| self.node()).collect()),
            }
            .into(),
            "add_nodes" => AddNodesRequest {
                request_header: hdr,
                nodes_to_add: Some(
                    (0..n)
                        .map(|_| {
                            if self.r.chance(0.3) {
                                // an item that would be accepted, with exactly one field out of the ordinary: checks
                                // that sit behind all the others are only reached this way
                                let mut item = AddNodesItem {
                                    parent_node_id: ExpandedNodeId::from(NodeId::from(if self.r.chance(0.5) { ObjectId::ObjectsFolder.into() } else { NodeId::new(self.ns, "o0") })),
                                    reference_type_id: if self.r.chance(0.5) { ReferenceTypeId::Organizes.into() } else { ReferenceTypeId::HasComponent.into() },
                                    requested_new_node_id: ExpandedNodeId::from(NodeId::new(self.ns, 5000 + self.r.below(100_000) as u32)),
                                    browse_name: QualifiedName::new(0, format!("nv{}", self.r.below(1_000_000))),
                                    node_class: NodeClass::Object,
                                    node_attributes: ExtensionObject::from_encodable(
                                        ObjectId::ObjectAttributes_Encoding_DefaultBinary,
                                        &ObjectAttributes { specified_attributes: (AttributesMask::DISPLAY_NAME | AttributesMask::EVENT_NOTIFIER).bits(), display_name: LocalizedText::from("nv"), description: LocalizedText::null(), write_mask: 0, user_write_mask: 0, event_notifier: 0 },
                                    ),
                                    type_definition: ExpandedNodeId::from(NodeId::from(&(if self.r.chance(0.5) { ObjectTypeId::BaseObjectType } else { ObjectTypeId::FolderType }))),
                                };
                                match self.r.below(9) {
                                    0 => item.requested_new_node_id.node_id = NodeId::new(*self.r.pick(&[2u16, 3, 9, 77, 65535]), self.r.below(10_000) as u32),
                                    1 => {
                                        item.requested_new_node_id.node_id = NodeId::new(*self.r.pick(&[3u16, 9, 77, 65535]), self.r.below(10_000) as u32);
                                        item.requested_new_node_id.namespace_uri = UAString::from(*self.r.pick(&["urn:some:namespace", "urn:sim:swarm", "http://opcfoundation.org/UA/", ""]));
                                    }
                                    2 => item.requested_new_node_id.server_index = 1 + self.r.below(3) as u32,
                                    3 => item.parent_node_id.namespace_uri = UAString::from("urn:sim:swarm"),
                                    4 => item.browse_name = self.qname(),
                                    5 => item.type_definition = ExpandedNodeId::from(self.node()),
                                    6 => item.reference_type_id = self.reftype(),
                                    7 => item.requested_new_node_id = ExpandedNodeId::null(),
                                    _ => item.type_definition.namespace_uri = UAString::from("urn:nowhere"),
                                }
                                return item;
                            }
                            let class = *self.r.pick(&[NodeClass::Object, NodeClass::Object, NodeClass::Variable, NodeClass::Method, NodeClass::Unspecified, NodeClass::View]);
                            let parent = self.node();
                            // self references: requested id == parent
                            let requested = if self.r.chance(0.15) { parent.clone() } else if self.r.chance(0.4) { NodeId::null() } else { self.node() };
                            AddNodesItem {
                                parent_node_id: ExpandedNodeId {
                                    node_id: parent,
                                    namespace_uri: UAString::null(),
                                    server_index: if self.r.chance(0.95) { 0 } else { 1 },
                                },
                                reference_type_id: self.reftype(),
                                requested_new_node_id: ExpandedNodeId {
                                    node_id: requested,
                                    namespace_uri: if self.r.chance(0.85) { UAString::null() } else { UAString::from(*self.r.pick(&["http://opcfoundation.org/UA/", "urn:sim:swarm", "urn:nowhere", ""])) },
                                    server_index: if self.r.chance(0.95) { 0 } else { 3 },
                                },
                                browse_name: self.qname(),
                                node_class: class,
                                node_attributes: self.node_attributes(class),
                                type_definition: if class == NodeClass::Variable && self.r.chance(0.7) {
                                    // a type definition that fits a variable, so that the attributes are really used
                                    ExpandedNodeId::from(NodeId::from(&VariableTypeId::BaseDataVariableType))
                                } else if self.r.chance(0.6) {
                                    ExpandedNodeId::from(NodeId::from(&ObjectTypeId::BaseObjectType))
                                } else {
                                    ExpandedNodeId::from(self.node())
                                },
                            }
                        })
                        .collect(),
                ),
            }
            .into(),
            "add_references" => AddReferencesRequest {
                request_header: hdr,
                references_to_add: Some(
                    (0..n)
                        .map(|_| {
                            if self.r.chance(0.12) {
                                // a client-made cycle in a type hierarchy (reference types or object types)
                                let which = self.r.below(3);
                                let (a, b): (NodeId, NodeId) = match which {
                                    0 => (ReferenceTypeId::HasComponent.into(), ReferenceTypeId::HierarchicalReferences.into()),
                                    1 => (ReferenceTypeId::Organizes.into(), ReferenceTypeId::References.into()),
                                    _ => (ObjectTypeId::FolderType.into(), ObjectTypeId::BaseObjectType.into()),
                                };
                                let class = if which < 2 { NodeClass::ReferenceType } else { NodeClass::ObjectType };
                                return AddReferencesItem {
                                    source_node_id: a,
                                    reference_type_id: ReferenceTypeId::HasSubtype.into(),
                                    is_forward: true,
                                    target_server_uri: UAString::null(),
                                    target_node_id: b.into(),
                                    target_node_class: class,
                                };
                            }
                            let a = self.node();
                            let b = if self.r.chance(0.2) { a.clone() } else { self.node() };
                            AddReferencesItem {
                                source_node_id: a,
                                reference_type_id: self.reftype(),
                                is_forward: self.r.chance(0.5),
                                target_server_uri: if self.r.chance(0.95) { UAString::null() } else { UAString::from("urn:x") },
                                target_node_id: ExpandedNodeId {
                                    node_id: b,
                                    namespace_uri: if self.r.chance(0.85) { UAString::null() } else { UAString::from(*self.r.pick(&["http://opcfoundation.org/UA/", "urn:sim:swarm", "urn:nowhere", ""])) },
                                    server_index: if self.r.chance(0.93) { 0 } else { self.r.below(3) as u32 },
                                },
                                target_node_class: *self.r.pick(&[NodeClass::Object, NodeClass::Variable, NodeClass::Unspecified, NodeClass::Method]),
                            }
                        })
                        .collect(),
                ),
            }
            .into(),
            "delete_nodes" => DeleteNodesRequest {
                request_header: hdr,
                nodes_to_delete: Some(
                    (0..n)
                        .map(|_| DeleteNodesItem {
                            node_id: if self.r.chance(0.8) { NodeId::new(self.ns, format!("{}{}", *self.r.pick(&["v", "o"]), self.r.below(3))) } else { self.node() },
                            delete_target_references: self.r.chance(0.7),
                        })
                        .collect(),
                ),
            }
            .into(),
            "delete_references" => DeleteReferencesRequest {
                request_header: hdr,
                references_to_delete: Some(
                    (0..n)
                        .map(|_| {
                            let a = self.node();
                            let b = if self.r.chance(0.2) { a.clone() } else { self.node() };
                            DeleteReferencesItem {
                                source_node_id: a,
                                reference_type_id: self.reftype(),
                                is_forward: self.r.chance(0.5),
                                target_node_id: b.into(),
                                delete_bidirectional: self.r.chance(0.5),
                            }
                        })
                        .collect(),
                ),
            }
            .into(),
            "call" => CallRequest {
                request_header: hdr,
                methods_to_call: Some(
                    (0..n)
                        .map(|_| {
                            let nargs = self.r.below(4);
                            CallMethodRequest {
                                object_id: if self.r.chance(0.6) { ObjectId::Server.into() } else { self.node() },
                                method_id: match self.r.below(4) {
                                    0 => MethodId::Server_GetMonitoredItems.into(),
                                    1 => MethodId::Server_ResendData.into(),
                                    2 => NodeId::new(self.ns, "m0"),
                                    _ => self.node(),
                                },
                                input_arguments: if nargs == 3 { None } else { Some((0..nargs).map(|_| if self.r.chance(0.5) { Variant::UInt32(self.sub_id()) } else { self.variant(0) }).collect()) },
                            }
                        })
                        .collect(),
                ),
            }
            .into(),
            "create_sub" => CreateSubscriptionRequest {
                request_header: hdr,
                requested_publishing_interval: *self.r.pick(&[100.0, 0.0, -1.0, f64::NAN, f64::INFINITY, 1e300, 50.0]),
                requested_lifetime_count: *self.r.pick(&[0u32, 1, 3, 30, u32::MAX]),
                requested_max_keep_alive_count: *self.r.pick(&[0u32, 1, 10, u32::MAX]),
                max_notifications_per_publish: *self.r.pick(&[0u32, 1, u32::MAX]),
                publishing_enabled: self.r.chance(0.8),
                priority: self.r.below(256) as u8,
            }
            .into(),
            "modify_sub" => ModifySubscriptionRequest {
                request_header: hdr,
                subscription_id: self.sub_id(),
                requested_publishing_interval: *self.r.pick(&[100.0, 0.0, -1.0, f64::NAN, 1e300]),
                requested_lifetime_count: *self.r.pick(&[0u32, 3, u32::MAX]),
                requested_max_keep_alive_count: *self.r.pick(&[0u32, 1, u32::MAX]),
                max_notifications_per_publish: 0,
                priority: self.r.below(256) as u8,
            }
            .into(),
            "set_publishing" => SetPublishingModeRequest {
                request_header: hdr,
                publishing_enabled: self.r.chance(0.5),
                subscription_ids: Some((0..n).map(|_| self.sub_id()).collect()),
            }
            .into(),
            "delete_subs" => DeleteSubscriptionsRequest {
                request_header: hdr,
                subscription_ids: Some((0..n).map(|_| self.sub_id()).collect()),
            }
            .into(),
            "transfer_subs" => TransferSubscriptionsRequest {
                request_header: hdr,
                subscription_ids: Some((0..n).map(|_| self.sub_id()).collect()),
                send_initial_values: self.r.chance(0.5),
            }
            .into(),
            "create_items" => CreateMonitoredItemsRequest {
                request_header: hdr,
                subscription_id: self.sub_id(),
                timestamps_to_return: *self.r.pick(&[TimestampsToReturn::Both, TimestampsToReturn::Neither, TimestampsToReturn::Invalid]),
                items_to_create: Some(
                    (0..n)
                        .map(|_| MonitoredItemCreateRequest {
                            item_to_monitor: self.read_value_id(),
                            monitoring_mode: *self.r.pick(&[MonitoringMode::Reporting, MonitoringMode::Reporting, MonitoringMode::Sampling, MonitoringMode::Disabled]),
                            requested_parameters: self.monitoring_parameters(),
                        })
                        .collect(),
                ),
            }
            .into(),
            "modify_items" => ModifyMonitoredItemsRequest {
                request_header: hdr,
                subscription_id: self.sub_id(),
                timestamps_to_return: TimestampsToReturn::Both,
                items_to_modify: Some(
                    (0..n)
                        .map(|_| MonitoredItemModifyRequest {
                            monitored_item_id: self.item_id(),
                            requested_parameters: self.monitoring_parameters(),
                        })
                        .collect(),
                ),
            }
            .into(),
            "set_monitoring_mode" => SetMonitoringModeRequest {
                request_header: hdr,
                subscription_id: self.sub_id(),
                monitoring_mode: *self.r.pick(&[MonitoringMode::Reporting, MonitoringMode::Sampling, MonitoringMode::Disabled]),
                monitored_item_ids: Some((0..n).map(|_| self.item_id()).collect()),
            }
            .into(),
            "set_triggering" => SetTriggeringRequest {
                request_header: hdr,
                subscription_id: self.sub_id(),
                triggering_item_id: self.item_id(),
                links_to_add: if self.r.chance(0.8) { Some((0..n).map(|_| self.item_id()).collect()) } else { None },
                links_to_remove: if self.r.chance(0.5) { Some((0..n).map(|_| self.item_id()).collect()) } else { None },
            }
            .into(),
            "delete_items" => DeleteMonitoredItemsRequest {
                request_header: hdr,
                subscription_id: self.sub_id(),
                monitored_item_ids: Some((0..n).map(|_| self.item_id()).collect()),
            }
            .into(),
            "publish" => PublishRequest {
                request_header: hdr,
                subscription_acknowledgements: if self.r.chance(0.6) {
                    None
                } else {
                    Some(
                        (0..n)
                            .map(|_| SubscriptionAcknowledgement {
                                subscription_id: self.sub_id(),
                                sequence_number: *self.r.pick(&[0u32, 1, 2, u32::MAX]),
                            })
                            .collect(),
                    )
                },
            }
            .into(),
            "republish" => RepublishRequest {
                request_header: hdr,
                subscription_id: self.sub_id(),
                retransmit_sequence_number: *self.r.pick(&[0u32, 1, 2, u32::MAX]),
            }
            .into(),
            "history_read" => HistoryReadRequest {
                request_header: hdr,
                history_read_details: match self.r.below(4) {
                    0 => ExtensionObject::null(),
                    1 => ExtensionObject::from_encodable(
                        ObjectId::ReadRawModifiedDetails_Encoding_DefaultBinary,
                        &ReadRawModifiedDetails {
                            is_read_modified: self.r.chance(0.5),
                            start_time: DateTime::null(),
                            end_time: DateTime::ymd(9999, 1, 1),
                            num_values_per_node: self.r.next_u32(),
                            return_bounds: true,
                        },
                    ),
                    2 => ExtensionObject::from_encodable(
                        ObjectId::ReadEventDetails_Encoding_DefaultBinary,
                        &ReadEventDetails {
                            num_values_per_node: 1,
                            start_time: DateTime::null(),
                            end_time: DateTime::null(),
                            filter: EventFilter {
                                select_clauses: None,
                                where_clause: self.content_filter(),
                            },
                        },
                    ),
                    _ => self.filter(),
                },
                timestamps_to_return: *self.r.pick(&[TimestampsToReturn::Both, TimestampsToReturn::Invalid]),
                release_continuation_points: self.r.chance(0.3),
                nodes_to_read: Some(
                    (0..n)
                        .map(|_| HistoryReadValueId {
                            node_id: self.node(),
                            index_range: self.range(),
                            data_encoding: QualifiedName::null(),
                            continuation_point: if self.r.chance(0.8) { ByteString::null() } else { ByteString::from(self.r.bytes(4)) },
                        })
                        .collect(),
                ),
            }
            .into(),
            "history_update" => HistoryUpdateRequest {
                request_header: hdr,
                history_update_details: Some(
                    (0..n)
                        .map(|_| match self.r.below(3) {
                            0 => ExtensionObject::null(),
                            1 => ExtensionObject::from_encodable(
                                ObjectId::UpdateDataDetails_Encoding_DefaultBinary,
                                &UpdateDataDetails {
                                    node_id: self.node(),
                                    perform_insert_replace: PerformUpdateType::Insert,
                                    update_values: None,
                                },
                            ),
                            _ => self.filter(),
                        })
                        .collect(),
                ),
            }
            .into(),
            _ => QueryFirstRequest {
                request_header: hdr,
                view: ViewDescription {
                    view_id: NodeId::null(),
                    timestamp: DateTime::null(),
                    view_version: 0,
                },
                node_types: None,
                filter: self.content_filter(),
                max_data_sets_to_return: 0,
                max_references_to_return: 0,
            }
            .into(),
        }
    }
}

impl Scenario for C33 {
    fn id(&self) -> &'static str {
        "C33"
    }
    fn info(&self) -> Info {
        Info {
            level: "exploration",
            exhaustive: false,
            layer: "L2 (real server tasks, raw client) + application actor raising events",
            rule: "run = activated session (90% allowed to modify the address space) sending 1-8 structure-aware random requests drawn from all 27 session-bound services plus ActivateSession with malformed / crafted encrypted user tokens (node management with arbitrary / null / self-referencing ids, names with reserved characters and unknown namespaces; monitored items with arbitrary data-change, event (random where-clauses: wrong operand counts, out-of-range element operands, attribute operands), aggregate and garbage filters; method calls; history and query requests; NaN / infinite / extreme numeric parameters), each followed by 0-3 timer ticks, with events raised in between. Oracle: each request is answered by a response or a ServiceFault, no task panics (panic hook), the process survives (worker isolation, watchdog) and a trailing Read of Server_ServerStatus_State succeeds. non-trivial = every run (each sends at least one randomised request); distinct = hash of (service, outcome class) sequence.",
            real: vec!["MessageHandler and every service it dispatches", "AddressSpace / References / relative_path", "events::event_filter / operator", "subscriptions (timer task) and monitored items", "method implementations", "server transport tasks, Chunker, TcpCodec"],
            stubbed: vec!["TCP socket", "historical data providers (none registered)"],
            assumptions: vec!["requests are structurally valid (they are built from the typed request structures and encoded by the real encoder); byte-level malformation is C02/C09's domain"],
            fault_kinds: vec!["randomised_request", "timer_tick_after_request", "event_raised", "type_hierarchy_cycle", "attribute_mask_names_absent_field"],
        }
    }
    fn runs(&self, tier: Tier) -> u64 {
        if tier == Tier::Thorough {
            400_000
        } else {
            12_000
        }
    }
    fn gen(&self, seed: u64, run: u64, _tier: Tier) -> Value {
        let mut rng = Rng::new(crate::framework::run_seed(seed, "C33", run));
        let n = rng.urange(1, 8);
        // swarm: each run enables a random subset of services
        let mut enabled: Vec<&str> = KINDS.iter().filter(|_| rng.chance(0.4)).cloned().collect();
        if enabled.is_empty() {
            enabled.push(*rng.pick(&KINDS));
        }
        let mut steps = Vec::new();
        if rng.chance(0.6) {
            steps.push(json!({"kind": "create_sub", "rseed": rng.next_u64() >> 12, "ticks": 0}));
            steps.push(json!({"kind": "create_items", "rseed": rng.next_u64() >> 12, "ticks": 1}));
        }
        for _ in 0..n {
            steps.push(json!({"kind": *rng.pick(&enabled), "rseed": rng.next_u64() >> 12, "ticks": rng.below(4), "event": rng.chance(0.2)}));
        }
        if rng.chance(0.08) {
            // a client-made cycle in a type hierarchy, then requests that walk the hierarchy
            let at = rng.urange(0, steps.len());
            steps.insert(at, json!({"kind": "type_cycle", "which": rng.below(3), "ticks": 1}));
        }
        if rng.chance(0.05) {
            let at = rng.urange(0, steps.len());
            steps.insert(at, json!({"kind": "variable_attrs", "which": rng.below(3), "ticks": 0}));
        }
        // swarm knob: some runs use a signed channel, so that the session has a real nonce
        let secured = rng.chance(0.12);
        if secured && rng.chance(0.8) {
            for _ in 0..rng.urange(1, 3) {
                steps.push(json!({"kind": "activate", "rseed": rng.next_u64() >> 12, "ticks": 0}));
            }
        }
        json!({"can_modify": rng.chance(0.9), "secured": secured, "tseed": rng.next_u64() >> 12, "steps": steps})
    }
    fn exec(&self, plan: &Value, ctx: &mut Ctx) {
        let rt = l2::runtime(plan["tseed"].as_u64().unwrap_or(1));
        rt.block_on(run(plan, ctx));
    }
    fn watchdog_s(&self) -> u64 {
        40
    }
}

async fn run(plan: &Value, ctx: &mut Ctx) {
    crate::hooks::follow_tokio();
    let mut spec = ServerSpec::default();
    spec.modify_address_space = plan["can_modify"].as_bool().unwrap_or(true);
    spec.users = vec![("u0".to_string(), "alice".to_string(), Some("secret".to_string()))];
    let secured = plan["secured"].as_bool().unwrap_or(false);
    let (policy, mode) = if secured { (opcua::crypto::SecurityPolicy::Basic256Sha256, MessageSecurityMode::Sign) } else { (opcua::crypto::SecurityPolicy::None, MessageSecurityMode::None) };
    spec.endpoints = vec![(policy, mode)];
    spec.endpoint_password_policy = Some(vec![Some("Basic256Sha256".to_string())]);
    let server = l2::build_server(&spec);
    let ns;
    {
        let aspace = server.address_space();
        let mut a = aspace.write();
        ns = a.register_namespace("urn:sim:swarm").unwrap_or(2);
        for i in 0..3 {
            let o = NodeId::new(ns, format!("o{}", i));
            ObjectBuilder::new(&o, format!("o{}", i), format!("o{}", i)).organized_by(ObjectId::ObjectsFolder).insert(&mut a);
            let v = NodeId::new(ns, format!("v{}", i));
            VariableBuilder::new(&v, format!("v{}", i), format!("v{}", i)).data_type(DataTypeId::Int32).value(i as i32).component_of(o.clone()).writable().insert(&mut a);
        }
        // an aggregation cycle and a shared child, so that DeleteNodes meets them
        a.insert_reference(&NodeId::new(ns, "o0"), &NodeId::new(ns, "o1"), ReferenceTypeId::HasComponent);
        a.insert_reference(&NodeId::new(ns, "o1"), &NodeId::new(ns, "o0"), ReferenceTypeId::HasComponent);
        a.insert_reference(&NodeId::new(ns, "o2"), &NodeId::new(ns, "v0"), ReferenceTypeId::HasProperty);
    }
    let mut c = Conn::connect(&server, 100.0, 1 << 22, 56000);
    if !c.handshake(policy, mode, 2048).await {
        ctx.log("handshake-failed", "");
        return;
    }
    if secured {
        ctx.probe("secured_channel_run");
    }
    let mut subs: Vec<u32> = Vec::new();
    let mut items: Vec<u32> = Vec::new();
    let mut cps: Vec<ByteString> = Vec::new();
    let steps = plan["steps"].as_array().cloned().unwrap_or_default();
    let mut events = 0u32;
    for (i, s) in steps.iter().enumerate() {
        ctx.step(i);
        let kind = s["kind"].as_str().unwrap_or("read").to_string();
        let mut rng = Rng::new(s["rseed"].as_u64().unwrap_or(1));
        if kind == "variable_attrs" {
            // a Variable whose attribute mask names attributes that the structure leaves empty
            ctx.fault("attribute_mask_names_absent_field");
            let mask = (AttributesMask::DISPLAY_NAME | AttributesMask::ACCESS_LEVEL | AttributesMask::USER_ACCESS_LEVEL | AttributesMask::DATA_TYPE | AttributesMask::HISTORIZING | AttributesMask::VALUE | AttributesMask::VALUE_RANK).bits()
                | match s["which"].as_u64().unwrap_or(0) {
                    0 => AttributesMask::ARRAY_DIMENSIONS.bits(),
                    1 => AttributesMask::ARRAY_DIMENSIONS.bits() | AttributesMask::MINIMUM_SAMPLING_INTERVAL.bits(),
                    _ => 0x3f_ffff,
                };
            let req: SupportedMessage = AddNodesRequest {
                request_header: c.header(),
                nodes_to_add: Some(vec![AddNodesItem {
                    parent_node_id: NodeId::new(ns, "o0").into(),
                    reference_type_id: ReferenceTypeId::HasComponent.into(),
                    requested_new_node_id: ExpandedNodeId::null(),
                    browse_name: QualifiedName::new(0, format!("attrs{}", i)),
                    node_class: NodeClass::Variable,
                    node_attributes: ExtensionObject::from_encodable(
                        ObjectId::VariableAttributes_Encoding_DefaultBinary,
                        &VariableAttributes {
                            specified_attributes: mask,
                            display_name: LocalizedText::from("n"),
                            description: LocalizedText::null(),
                            write_mask: 0,
                            user_write_mask: 0,
                            value: Variant::Int32(1),
                            data_type: DataTypeId::Int32.into(),
                            value_rank: -1,
                            array_dimensions: None,
                            access_level: 1,
                            user_access_level: 1,
                            minimum_sampling_interval: 0.0,
                            historizing: false,
                        },
                    ),
                    type_definition: ExpandedNodeId::from(NodeId::from(&VariableTypeId::BaseDataVariableType)),
                }]),
            }
            .into();
            let r = c.call(req).await;
            ctx.log(&format!("variable_attrs>{}", l2::recv_kind(&r)), "");
            if !matches!(r, Recv::Msg(_, _)) {
                ctx.violate("C33", "request-not-answered", "variable_attrs", format!("AddNodes for a Variable whose attribute mask names ArrayDimensions although none are given was not answered: {}", l2::recv_kind(&r)));
                break;
            }
            continue;
        }
        if kind == "type_cycle" {
            ctx.fault("type_hierarchy_cycle");
            let (a, b): (NodeId, NodeId) = match s["which"].as_u64().unwrap_or(0) {
                0 => (ReferenceTypeId::HasComponent.into(), ReferenceTypeId::HierarchicalReferences.into()),
                1 => (ReferenceTypeId::Organizes.into(), ReferenceTypeId::References.into()),
                _ => (ObjectTypeId::FolderType.into(), ObjectTypeId::BaseObjectType.into()),
            };
            let add: SupportedMessage = AddReferencesRequest {
                request_header: c.header(),
                references_to_add: Some(vec![AddReferencesItem { source_node_id: a, reference_type_id: ReferenceTypeId::HasSubtype.into(), is_forward: true, target_server_uri: UAString::null(), target_node_id: b.into(), target_node_class: if s["which"].as_u64().unwrap_or(0) < 2 { NodeClass::ReferenceType } else { NodeClass::ObjectType } }]),
            }
            .into();
            let r1 = c.call(add).await;
            let browse: SupportedMessage = BrowseRequest {
                request_header: c.header(),
                view: ViewDescription { view_id: NodeId::null(), timestamp: DateTime::null(), view_version: 0 },
                requested_max_references_per_node: 0,
                nodes_to_browse: Some(vec![BrowseDescription { node_id: ObjectId::ObjectsFolder.into(), browse_direction: BrowseDirection::Both, reference_type_id: ReferenceTypeId::Aggregates.into(), include_subtypes: true, node_class_mask: 0, result_mask: 63 }]),
            }
            .into();
            let r2 = c.call(browse).await;
            let tr: SupportedMessage = TranslateBrowsePathsToNodeIdsRequest {
                request_header: c.header(),
                browse_paths: Some(vec![BrowsePath {
                    starting_node: ObjectId::RootFolder.into(),
                    relative_path: RelativePath { elements: Some(vec![RelativePathElement { reference_type_id: ReferenceTypeId::NonHierarchicalReferences.into(), is_inverse: false, include_subtypes: true, target_name: QualifiedName::new(0, "Objects") }]) },
                }]),
            }
            .into();
            let r3 = c.call(tr).await;
            ctx.log(&format!("type_cycle>{}/{}/{}", l2::recv_kind(&r1), l2::recv_kind(&r2), l2::recv_kind(&r3)), "");
            for (name, r) in [("AddReferences", &r1), ("Browse", &r2), ("TranslateBrowsePaths", &r3)] {
                if !matches!(r, Recv::Msg(_, _)) {
                    ctx.violate("C33", "request-not-answered", "type_cycle", format!("{} around a client-made HasSubtype cycle was not answered: {}", name, l2::recv_kind(r)));
                }
            }
            if !c.is_open() {
                break;
            }
            continue;
        }
        let hdr = c.header();
        let req = {
            let mut g = G {
                r: &mut rng,
                ns,
                subs: subs.clone(),
                items: items.clone(),
                cps: cps.clone(),
                client_sig: c.client_signature(),
            };
            g.request(&kind, hdr)
        };
        ctx.fault("randomised_request");
        let sent = c.send_message(&req).await;
        let r = match sent {
            Some(id) => {
                if kind == "publish" {
                    c.recv_for(id, Duration::from_millis(250)).await
                } else {
                    c.recv_for(id, Duration::from_secs(5)).await
                }
            }
            None => Recv::Eof,
        };
        // learn ids so that later requests hit existing objects
        if let Recv::Msg(_, m) = &r {
            match m {
                SupportedMessage::ActivateSessionResponse(x) => c.server_nonce = x.server_nonce.clone(),
                SupportedMessage::CreateSubscriptionResponse(x) => subs.push(x.subscription_id),
                SupportedMessage::CreateMonitoredItemsResponse(x) => {
                    for res in x.results.iter().flatten() {
                        if res.status_code.is_good() {
                            items.push(res.monitored_item_id);
                        }
                    }
                }
                SupportedMessage::BrowseResponse(x) => {
                    for res in x.results.iter().flatten() {
                        if !res.continuation_point.is_null() {
                            cps.push(res.continuation_point.clone());
                        }
                    }
                }
                _ => {}
            }
        }
        let outcome = l2::recv_kind(&r);
        let answered = matches!(r, Recv::Msg(_, _)) || (kind == "publish" && matches!(r, Recv::Timeout));
        ctx.log(&format!("{}>{}", kind, if outcome.starts_with("Fault") { "Fault".to_string() } else { outcome.clone() }), &outcome);
        if !answered {
            ctx.violate(
                "C33",
                "request-not-answered",
                &kind,
                format!("{} request was not answered with a response or fault: {} (request: {})", kind, outcome, short(&format!("{:?}", req))),
            );
            break;
        }
        if s["event"].as_bool().unwrap_or(false) {
            events += 1;
            let aspace = server.address_space();
            let mut a = aspace.write();
            let id = NodeId::new(ns, format!("event{}", events));
            let mut ev = BaseEventType::new(&id, ObjectTypeId::BaseEventType, format!("Event{}", events), "", NodeId::objects_folder_id(), DateTime::from(crate::hooks::utc_now())).source_node(ObjectId::Server);
            let _ = ev.raise(&mut a);
            ctx.fault("event_raised");
        }
        let ticks = s["ticks"].as_u64().unwrap_or(0);
        for _ in 0..ticks {
            ctx.fault("timer_tick_after_request");
            tokio::time::sleep(Duration::from_millis(100)).await;
            let _ = c.drain(Duration::from_millis(0)).await;
            if !c.is_open() {
                break;
            }
        }
        if !c.is_open() {
            ctx.violate("C33", "connection-lost", &kind, format!("the server dropped the connection after a {} request and timer ticks (request: {})", kind, short(&format!("{:?}", req))));
            break;
        }
    }
    if c.is_open() {
        // still serving? (a failed ActivateSession legitimately deactivates the session: activate again first)
        c.backlog.clear();
        if steps.iter().any(|s| s["kind"] == "activate") {
            let _ = c.activate_session(Conn::anonymous_token()).await;
        }
        let req: SupportedMessage = ReadRequest {
            request_header: c.header(),
            max_age: 0.0,
            timestamps_to_return: TimestampsToReturn::Neither,
            nodes_to_read: Some(vec![ReadValueId {
                node_id: VariableId::Server_ServerStatus_State.into(),
                attribute_id: AttributeId::Value as u32,
                index_range: UAString::null(),
                data_encoding: QualifiedName::null(),
            }]),
        }
        .into();
        let r = c.call(req).await;
        let ok = match &r {
            Recv::Msg(_, SupportedMessage::ReadResponse(resp)) => resp.results.as_ref().map(|v| v.len() == 1).unwrap_or(false),
            _ => false,
        };
        if !ok {
            ctx.violate("C33", "not-serving-afterwards", "", format!("trailing Read of Server_ServerStatus_State answered with {}", l2::recv_kind(&r)));
        }
    }
    ctx.advance(100_000 * steps.len() as u64);
}

fn short(s: &str) -> String {
    if s.len() > 600 {
        format!("{}...", &s[..600])
    } else {
        s.to_string()
    }
}
