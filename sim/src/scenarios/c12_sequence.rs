//! C12 Sequence numbers increase by one per chunk and replays are rejected.
//!
//! (a) sender half (L1): histories of messages of varying chunk counts through the real client
//!     `SendBuffer` and server `MessageWriter`; the emitted sequence headers are inspected.
//! (b) receiver half (L2): a man-in-the-middle stage reorders, duplicates, drops and replays the
//!     chunks of a raw client's requests before they reach the real server reader loop.

use crate::ctx::Ctx;
use crate::framework::{Info, Scenario, Tier};
use crate::l2::{self, Conn, Recv, ServerSpec};
use crate::pipe;
use crate::rng::Rng;
use crate::wire;
use opcua::client::transport::buffer::SendBuffer;
use opcua::core::comms::message_writer::MessageWriter;
use opcua::core::comms::secure_channel::Role;
use opcua::core::supported_message::SupportedMessage;
use opcua::types::*;
use serde_json::{json, Value};
use std::time::Duration;

pub struct C12;

fn seq_header(chunk: &[u8]) -> Option<(u32, u32, u8)> {
    // policy None: 12 byte chunk header + 4 byte token id + sequence number + request id
    if chunk.len() < 24 {
        return None;
    }
    let seq = u32::from_le_bytes([chunk[16], chunk[17], chunk[18], chunk[19]]);
    let req = u32::from_le_bytes([chunk[20], chunk[21], chunk[22], chunk[23]]);
    Some((seq, req, chunk[3]))
}

fn split_frames(all: &[u8]) -> Vec<Vec<u8>> {
    let mut out = Vec::new();
    let mut pos = 0;
    while pos + 8 <= all.len() {
        let len = u32::from_le_bytes([all[pos + 4], all[pos + 5], all[pos + 6], all[pos + 7]]) as usize;
        if len < 8 || pos + len > all.len() {
            break;
        }
        out.push(all[pos..pos + len].to_vec());
        pos += len;
    }
    out
}

fn exec_sender(plan: &Value, ctx: &mut Ctx) {
    let role = plan["role"].as_str().unwrap_or("client");
    let chunk = plan["chunk"].as_u64().unwrap_or(8196) as usize;
    let chan = wire::bare_channel(if role == "client" { Role::Client } else { Role::Server }, DecodingOptions::default());
    let mut sb = SendBuffer::new(chunk, 0, 0);
    let mut mw = MessageWriter::new(chunk, 0, 0);
    let mut last_seq: Option<u32> = None;
    let mut seen_req: std::collections::BTreeSet<u32> = Default::default();
    let steps = plan["steps"].as_array().cloned().unwrap_or_default();
    for (i, s) in steps.iter().enumerate() {
        ctx.step(i);
        let size = s["size"].as_u64().unwrap_or(100) as usize;
        let mut rng = Rng::new(size as u64 + i as u64 * 7);
        let (req_id, frames): (u32, Vec<Vec<u8>>) = if role == "client" {
            let id = sb.next_request_id();
            let msg: SupportedMessage = wire::sized_read_request(i as u32, size, &mut rng).into();
            match pipe::send_via_send_buffer(&mut sb, &chan, id, msg) {
                Ok(f) => (id, f),
                Err(_) => continue,
            }
        } else {
            let id = mw.next_request_id();
            let msg: SupportedMessage = pipe::sized_read_response(i as u32, size, &mut rng).into();
            match pipe::send_via_message_writer(&mut mw, &chan, id, msg) {
                Ok(b) => (id, split_frames(&b)),
                Err(_) => continue,
            }
        };
        if frames.len() > 1 {
            ctx.nontrivial = true;
            ctx.probe("multi_chunk_message");
        }
        if !seen_req.insert(req_id) {
            ctx.violate("C12", "request-id-reused", role, format!("request id {} was handed out twice", req_id));
        }
        for (k, f) in frames.iter().enumerate() {
            if let Some((seq, req, _)) = seq_header(f) {
                if let Some(prev) = last_seq {
                    if seq != prev.wrapping_add(1) {
                        ctx.violate("C12", "sequence-number-step", role, format!("chunk {} of message {} carries sequence number {} after {}", k, i, seq, prev));
                    }
                }
                last_seq = Some(seq);
                if req != req_id {
                    ctx.violate("C12", "chunk-request-id", role, format!("chunk {} of message {} carries request id {} instead of {}", k, i, req, req_id));
                }
            }
        }
        ctx.log(&format!("send:{}:{}ch", role, frames.len().min(9)), "");
    }
    ctx.advance(steps.len() as u64);
}

async fn exec_receiver(plan: &Value, ctx: &mut Ctx) {
    crate::hooks::follow_tokio();
    let server = l2::build_server(&ServerSpec::default());
    let mut c = Conn::connect(&server, 100.0, 1 << 22, 57000);
    if !c.handshake(opcua::crypto::SecurityPolicy::None, MessageSecurityMode::None, 2048).await {
        return;
    }
    c.chunk_size = 8196;
    // what has been delivered to the server since the last Final chunk: (message index, seq, request id)
    let mut group: Vec<(usize, u32, u32)> = Vec::new();
    let mut group_chan: Vec<u32> = Vec::new();
    let mut max_accepted_seq: u32 = c.next_seq - 1;
    // every chunk ever produced: message index -> (request id, chunks)
    let mut produced: Vec<(u32, Vec<Vec<u8>>)> = Vec::new();
    let mut accepted_msgs: std::collections::BTreeSet<usize> = Default::default();
    let steps = plan["steps"].as_array().cloned().unwrap_or_default();
    'outer: for (i, s) in steps.iter().enumerate() {
        ctx.step(i);
        let op = s["op"].as_str().unwrap_or("send");
        // build the list of chunks to deliver in this step: (message index, chunk bytes)
        let mut deliver: Vec<(usize, Vec<u8>)> = Vec::new();
        match op {
            "send" => {
                let size = s["size"].as_u64().unwrap_or(100) as usize;
                let mut rng = Rng::new(size as u64 + i as u64 * 13);
                let mut req = wire::sized_read_request(1000 + produced.len() as u32, size, &mut rng);
                req.request_header.authentication_token = c.auth_token.clone();
                // only read one cheap node so that the response stays small
                if let Some(n) = req.nodes_to_read.as_mut() {
                    for rv in n.iter_mut() {
                        rv.attribute_id = AttributeId::NodeClass as u32;
                    }
                }
                let msg: SupportedMessage = req.into();
                match c.encode_message(&msg) {
                    Ok((id, chunks)) => {
                        let mi = produced.len();
                        let mut order: Vec<usize> = (0..chunks.len()).collect();
                        let mut patch_req: Option<usize> = None;
                        let mut patch_first_req_zero = false;
                        let mut patch_chan: Option<usize> = None;
                        match s["mitm"].as_str().unwrap_or("none") {
                            "swap" if chunks.len() >= 2 => {
                                let a = (s["a"].as_u64().unwrap_or(0) as usize) % chunks.len();
                                let b = (a + 1) % chunks.len();
                                order.swap(a, b);
                                ctx.fault("reorder");
                            }
                            "dup" => {
                                let a = (s["a"].as_u64().unwrap_or(0) as usize) % chunks.len();
                                order.insert(a, a);
                                ctx.fault("duplicate");
                            }
                            "drop" if chunks.len() >= 2 => {
                                let a = (s["a"].as_u64().unwrap_or(0) as usize) % (chunks.len() - 1);
                                order.remove(a);
                                ctx.fault("drop");
                            }
                            "patch_req" if chunks.len() >= 2 => {
                                // Byzantine sender: consecutive sequence numbers but another request id in a later chunk
                                ctx.fault("mixed_request_ids");
                                patch_req = Some((s["a"].as_u64().unwrap_or(0) as usize % (chunks.len() - 1)) + 1);
                            }
                            "patch_req_zero" if chunks.len() >= 2 => {
                                // ... or request id 0 in the first chunk and the real id in the others
                                ctx.fault("mixed_request_ids");
                                patch_first_req_zero = true;
                            }
                            "patch_chan" if chunks.len() >= 2 => {
                                // a later chunk that names another secure channel
                                ctx.fault("foreign_channel_id_in_later_chunk");
                                patch_chan = Some((s["a"].as_u64().unwrap_or(0) as usize % (chunks.len() - 1)) + 1);
                            }
                            "hold" => {
                                // produced (consumes sequence numbers) but not delivered now: replayed later or never
                                order.clear();
                                ctx.fault("delay");
                            }
                            _ => {}
                        }
                        for k in order {
                            let mut bytes = chunks[k].clone();
                            if patch_req == Some(k) && bytes.len() >= 24 {
                                let other = (id + 7777).to_le_bytes();
                                bytes[20..24].copy_from_slice(&other);
                            }
                            if patch_first_req_zero && k == 0 && bytes.len() >= 24 {
                                bytes[20..24].copy_from_slice(&0u32.to_le_bytes());
                            }
                            if patch_chan == Some(k) && bytes.len() >= 24 {
                                let cid = u32::from_le_bytes([bytes[8], bytes[9], bytes[10], bytes[11]]);
                                bytes[8..12].copy_from_slice(&(cid.wrapping_add(1)).to_le_bytes());
                            }
                            deliver.push((mi, bytes));
                        }
                        produced.push((id, chunks));
                    }
                    Err(_) => continue,
                }
            }
            "replay" => {
                if produced.is_empty() {
                    continue;
                }
                let mi = (s["which"].as_u64().unwrap_or(0) as usize) % produced.len();
                ctx.fault(if accepted_msgs.contains(&mi) { "replay_accepted_message" } else { "late_delivery" });
                for ch in produced[mi].1.iter() {
                    deliver.push((mi, ch.clone()));
                }
            }
            "sleep" => {
                tokio::time::sleep(Duration::from_millis(s["ms"].as_u64().unwrap_or(10))).await;
                continue;
            }
            _ => continue,
        }
        for (mi, bytes) in deliver {
            let (seq, req, fin) = match seq_header(&bytes) {
                Some(x) => x,
                None => continue,
            };
            if !c.send_bytes(&bytes).await {
                break 'outer;
            }
            group.push((mi, seq, req));
            group_chan.push(u32::from_le_bytes([bytes[8], bytes[9], bytes[10], bytes[11]]));
            if fin == b'F' {
                // a message boundary as the server sees it: what does the model say about this group?
                let consecutive = group.windows(2).all(|w| w[1].1 == w[0].1.wrapping_add(1));
                let one_req = group.iter().all(|g| g.2 == group[0].2);
                let fresh = group[0].1 > max_accepted_seq;
                let one_msg = group.iter().all(|g| g.0 == group[0].0) && group.len() == produced[group[0].0].1.len();
                let one_chan = group_chan.iter().all(|x| *x == c.chan.secure_channel_id());
                let acceptable = consecutive && one_req && fresh && one_chan;
                let first_req = group[0].2;
                // did the server answer it?
                let r = c.recv_for(first_req, Duration::from_millis(50)).await;
                let answered = matches!(r, Recv::Msg(_, ref m) if !matches!(m, SupportedMessage::ServiceFault(_)));
                let replayed = accepted_msgs.contains(&group[0].0) && one_msg;
                if answered {
                    if !acceptable {
                        let why = if !consecutive { "non-consecutive sequence numbers" } else if !one_req { "several request ids" } else if !one_chan { "a chunk of another secure channel" } else { "sequence numbers not greater than an accepted one" };
                        ctx.violate(
                            "C12",
                            if replayed { "replayed-message-accepted" } else { "invalid-chunk-sequence-accepted" },
                            &why.replace(' ', "-"),
                            format!("server answered a message made of chunks {:?} (seq, request id) with {}: {}", group.iter().map(|g| (g.1, g.2)).collect::<Vec<_>>(), l2::recv_kind(&r), why),
                        );
                    }
                    if replayed {
                        ctx.violate("C12", "replayed-message-accepted", "", format!("message {} was answered a second time when its chunks were replayed", group[0].0));
                    }
                    accepted_msgs.insert(group[0].0);
                    max_accepted_seq = max_accepted_seq.max(group.iter().map(|g| g.1).max().unwrap_or(0));
                    ctx.probe("message_accepted");
                }
                ctx.log(&format!("{}:{}ch>{}{}", op, group.len().min(9), if acceptable { "" } else { "!" }, l2::recv_kind(&r)), "");
                group.clear();
                group_chan.clear();
                if !c.is_open() {
                    break 'outer;
                }
            }
        }
        tokio::time::sleep(Duration::from_millis(1)).await;
    }
    ctx.advance(1000 * steps.len() as u64);
}

impl Scenario for C12 {
    fn id(&self) -> &'static str {
        "C12"
    }
    fn info(&self) -> Info {
        Info {
            level: "exploration",
            exhaustive: false,
            layer: "L1 (sender half) + L2 (receiver half: raw client + MITM stage -> real server reader loop)",
            rule: "sender runs: histories of 1-40 messages of 1-5 chunks through the client SendBuffer / server MessageWriter, emitted sequence headers inspected (step of exactly one, request ids unique). receiver runs: histories of multi-chunk Read requests whose chunks a MITM stage swaps, duplicates, drops, holds back and replays (immediately or much later) before the real server; oracle (one direction): a message the server answers consisted of consecutive sequence numbers, all greater than any accepted before, with one request id; an accepted message that is replayed is not answered again. non-trivial = a MITM fault fired or a multi-chunk message was sent; distinct = op/outcome hash.",
            real: vec!["client SendBuffer", "server MessageWriter", "Chunker::encode / validate_chunks", "server TcpTransport reader loop, process_chunk, last_received_sequence_number", "MessageHandler (Read)"],
            stubbed: vec!["TCP socket", "client-side receiver (exercised by C35's world)"],
            assumptions: vec!["security policy None (sequence headers readable by the MITM stage)"],
            fault_kinds: vec!["reorder", "duplicate", "drop", "delay", "late_delivery", "replay_accepted_message", "mixed_request_ids", "foreign_channel_id_in_later_chunk"],
        }
    }
    fn runs(&self, tier: Tier) -> u64 {
        if tier == Tier::Thorough {
            50_000
        } else {
            2500
        }
    }
    fn gen(&self, seed: u64, run: u64, tier: Tier) -> Value {
        let mut rng = Rng::new(crate::framework::run_seed(seed, "C12", run));
        if run % 4 == 0 {
            let n = if tier == Tier::Thorough { rng.urange(1, 40) } else { rng.urange(1, 15) };
            let chunk = *rng.pick(&[8196usize, 8196, 9000, 16384]);
            let steps: Vec<Value> = (0..n).map(|_| json!({"size": *rng.pick(&[100usize, 500, 8000, 8200, 17000, 25000, 41000])})).collect();
            return json!({"mode": "sender", "role": if rng.chance(0.5) { "client" } else { "server" }, "chunk": chunk, "steps": steps});
        }
        let n = if tier == Tier::Thorough { rng.urange(2, 14) } else { rng.urange(2, 8) };
        let mut steps = Vec::new();
        for _ in 0..n {
            match rng.below(10) {
                0..=5 => {
                    let mitm = *rng.pick(&["none", "none", "none", "none", "swap", "dup", "drop", "hold", "patch_req", "patch_req_zero", "patch_chan"]);
                    steps.push(json!({"op": "send", "size": *rng.pick(&[100usize, 300, 9000, 17000, 26000]), "mitm": mitm, "a": rng.below(4)}));
                }
                6..=8 => steps.push(json!({"op": "replay", "which": rng.below(8)})),
                _ => steps.push(json!({"op": "sleep", "ms": *rng.pick(&[1u64, 150, 5000])})),
            }
        }
        json!({"mode": "receiver", "tseed": rng.next_u64() >> 12, "steps": steps})
    }
    fn exec(&self, plan: &Value, ctx: &mut Ctx) {
        if plan["mode"] == "sender" {
            exec_sender(plan, ctx);
        } else {
            let rt = l2::runtime(plan["tseed"].as_u64().unwrap_or(1));
            rt.block_on(exec_receiver(plan, ctx));
        }
    }
    fn panic_property(&self) -> &'static str {
        "C09"
    }
}
