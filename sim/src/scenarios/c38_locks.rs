//! C38 Server locks are always taken in one global order.
//!
//! Record mode: the real server (reader / writer / timer tasks of two connections, every service
//! the message handler dispatches, application actor, connection teardown) runs with the lock
//! seam reporting every acquisition; the class-level "held -> acquired" graph of each run must be
//! acyclic. The workload is the C33 swarm extended to two connections, disconnects and an
//! application actor.

use crate::ctx::Ctx;
use crate::framework::{Info, Scenario, Tier};
use crate::l2::{self, Conn, Recv, ServerSpec};
use crate::locks;
use crate::rng::Rng;
use crate::scenarios::c33_swarm::{G, KINDS};
use opcua::core::supported_message::SupportedMessage;
use opcua::server::address_space::object::ObjectBuilder;
use opcua::server::address_space::variable::VariableBuilder;
use opcua::server::events::event::{BaseEventType, Event};
use opcua::types::*;
use serde_json::{json, Value};
use std::time::Duration;

pub struct C38;

impl Scenario for C38 {
    fn id(&self) -> &'static str {
        "C38"
    }
    fn info(&self) -> Info {
        Info {
            level: "exploration",
            exhaustive: false,
            layer: "L2 with the lock seam in record mode (real server tasks of two connections on one simulated thread; held-lock stack per task)",
            rule: "run = two connections with one activated session each, 4-24 steps drawn from all 27 session-bound services (structure-aware random requests, as in C33) addressed to either connection, each followed by 0-3 timer ticks of both connections' subscription timers; events raised and variables written by an application actor; connection drops (transport teardown, session clean-up) and reconnects. Every acquisition through opcua::sync::{RwLock, Mutex} is recorded with (instance, protected type, mode, call site); an acquisition while other locks are held adds an edge held type -> acquired type. Oracle: the edge set of the run has no cycle (no strongly connected component with two or more types, no nesting of two instances of one type, no re-entrant acquisition of one instance). non-trivial = the run nested at least two locks; distinct = hash of the run's edge set.",
            real: vec!["every lock acquisition of the server: MessageHandler and all services, SessionManager / Session, AddressSpace, ServerState, subscriptions timer task, TcpTransport reader / writer / finish, method callbacks, certificate store", "the lock wrappers delegate to the real parking_lot locks"],
            stubbed: vec!["TCP socket", "thread scheduling (one simulated thread: the graph predicts deadlocks, it does not execute them)"],
            assumptions: vec!["edges are per protected type; two instances of one type are told apart by address only to separate re-entrancy from sibling nesting", "try_* acquisitions create no incoming edge (they cannot block)"],
            fault_kinds: vec!["randomised_request", "timer_tick", "connection_drop", "application_write", "event_raised", "second_connection", "foreign_session_token"],
        }
    }
    fn runs(&self, tier: Tier) -> u64 {
        if tier == Tier::Thorough {
            60_000 + 6000
        } else {
            1500 + 300
        }
    }
    fn gen(&self, seed: u64, run: u64, tier: Tier) -> Value {
        let mut rng = Rng::new(crate::framework::run_seed(seed, "C38", run));
        let record_runs = if tier == Tier::Thorough { 60_000 } else { 1500 };
        if run >= record_runs {
            // L3: two baton threads, one connection each, a short task list per thread
            let ops = ["call_gmi", "call_resend", "ticks", "create_sub", "create_session", "read", "write", "add_node", "browse", "publish", "disconnect", "close_session"];
            let mut steps = Vec::new();
            for t in 0..2 {
                if rng.chance(0.8) {
                    steps.push(json!({"thread": t, "op": "create_sub"}));
                }
            }
            // four runs in ten stay away from the operations behind the listed findings (Call,
            // CreateSession): a deadlock reached in such a run cannot be one of them, and none of them can
            // end the run before another one is reached
            let w: [u32; 12] = if rng.chance(0.4) { [0, 0, 4, 2, 0, 2, 2, 2, 1, 2, 1, 2] } else { [4, 2, 4, 1, 2, 1, 1, 1, 1, 1, 1, 2] };
            for _ in 0..rng.urange(2, 8) {
                let op = ops[rng.weighted(&w)];
                steps.push(json!({"thread": rng.below(2), "op": op, "n": rng.urange(1, 3)}));
            }
            return json!({"l3": true, "sseed": rng.next_u64() >> 12, "tseed": rng.next_u64() >> 12, "steps": steps});
        }
        let n = if tier == Tier::Thorough { rng.urange(4, 24) } else { rng.urange(4, 16) };
        let mut enabled: Vec<&str> = KINDS.iter().filter(|_| rng.chance(0.5)).cloned().collect();
        if enabled.is_empty() {
            enabled.push(*rng.pick(&KINDS));
        }
        let mut steps = Vec::new();
        for conn in 0..2 {
            if rng.chance(0.7) {
                steps.push(json!({"conn": conn, "kind": "create_sub", "rseed": rng.next_u64() >> 12, "ticks": 0}));
                steps.push(json!({"conn": conn, "kind": "create_items", "rseed": rng.next_u64() >> 12, "ticks": 1}));
            }
        }
        for _ in 0..n {
            let conn = rng.below(2);
            match rng.below(12) {
                0 => steps.push(json!({"conn": conn, "kind": if rng.chance(0.5) { "drop" } else { "close_session" }, "reconnect": rng.chance(0.7), "ticks": rng.below(3)})),
                1 => steps.push(json!({"conn": conn, "kind": "app_write", "ticks": rng.below(2)})),
                2 => steps.push(json!({"conn": conn, "kind": *rng.pick(&["activate", "activate", "read", "publish", "modify_sub", "create_sub"]), "foreign_token": true, "rseed": rng.next_u64() >> 12, "ticks": rng.below(3)})),
                _ => steps.push(json!({"conn": conn, "kind": *rng.pick(&enabled), "rseed": rng.next_u64() >> 12, "ticks": rng.below(4), "event": rng.chance(0.2)})),
            }
        }
        json!({"tseed": rng.next_u64() >> 12, "steps": steps})
    }
    fn exec(&self, plan: &Value, ctx: &mut Ctx) {
        if plan["l3"].as_bool().unwrap_or(false) {
            return exec_l3(plan, ctx);
        }
        let rt = l2::runtime(plan["tseed"].as_u64().unwrap_or(1));
        let rec = rt.block_on(run(plan, ctx));
        drop(rt);
        locks::uninstall();
        if let Some(rec) = rec {
            analyse(&rec, ctx);
        }
    }
    fn panic_property(&self) -> &'static str {
        "C33"
    }
    fn watchdog_s(&self) -> u64 {
        60
    }
}

fn analyse(rec: &locks::Recorder, ctx: &mut Ctx) {
    let g = rec.graph.lock().unwrap();
    ctx.add("lock_acquisitions", g.acquisitions);
    if g.max_depth >= 2 {
        ctx.nontrivial = true;
    }
    for ((a, b), n) in g.class_edges.iter() {
        ctx.add(&format!("edge {} > {}", a, b), *n);
    }
    ctx.log("edges", &g.class_edges.keys().map(|(a, b)| format!("{}>{}", a, b)).collect::<Vec<_>>().join(" "));
    for ((addr, held, again), ex) in g.reentrant.iter() {
        let cls = g.class_of.get(addr).cloned().unwrap_or_default();
        // Read inside Read on one instance only blocks when a writer can queue up in between
        let harmless = *held == opcua::verif::sync::Kind::Read && *again == opcua::verif::sync::Kind::Read && !g.written.contains(addr);
        if harmless {
            ctx.probe("reentrant_read_without_any_writer");
            continue;
        }
        ctx.violate("C38", "reentrant", &format!("{}/{:?}>{:?}", cls, held, again), format!("the same {} instance was locked again ({:?} inside {:?}) at {} while already held (taken at {}){}", cls, again, held, ex.acquire_site, ex.held_site, if *held == opcua::verif::sync::Kind::Read { "; the instance is also write-locked elsewhere, and a queued writer blocks the inner read" } else { "" }));
    }
    for c in locks::potential_deadlocks(&g, 4) {
        ctx.violate("C38", "cycle", &format!("{}/{}", c.classes.join(">"), c.culprits.join("+")), format!("potential deadlock, lock order {} > {}: {}", c.classes.join(" > "), c.classes[0], c.description));
    }
}

struct Side {
    c: Conn,
    subs: Vec<u32>,
    items: Vec<u32>,
    cps: Vec<ByteString>,
}

async fn run(plan: &Value, ctx: &mut Ctx) -> Option<std::sync::Arc<locks::Recorder>> {
    crate::hooks::follow_tokio();
    let mut spec = ServerSpec::default();
    spec.users = vec![("u0".to_string(), "alice".to_string(), Some("secret".to_string()))];
    let server = l2::build_server(&spec);
    let ns;
    {
        let aspace = server.address_space();
        let mut a = aspace.write();
        ns = a.register_namespace("urn:sim:swarm").unwrap_or(2);
        for i in 0..3 {
            let o = NodeId::new(ns, format!("o{}", i));
            ObjectBuilder::new(&o, format!("o{}", i), format!("o{}", i)).organized_by(ObjectId::ObjectsFolder).insert(&mut a);
            let v = NodeId::new(ns, format!("v{}", i));
            VariableBuilder::new(&v, format!("v{}", i), format!("v{}", i)).data_type(DataTypeId::Int32).value(i as i32).component_of(o.clone()).writable().insert(&mut a);
        }
    }
    // Server construction and application set-up happen before any task exists: they cannot take
    // part in a deadlock and are not recorded.
    let rec = locks::install();
    let policy = opcua::crypto::SecurityPolicy::None;
    let mode = MessageSecurityMode::None;
    let mut sides: Vec<Side> = Vec::new();
    for k in 0..2u16 {
        let mut c = Conn::connect(&server, 100.0, 1 << 22, 57000 + k);
        if !c.handshake(policy, mode, 2048).await {
            ctx.log("handshake-failed", "");
            return None;
        }
        sides.push(Side { c, subs: Vec::new(), items: Vec::new(), cps: Vec::new() });
    }
    ctx.fault("second_connection");
    let steps = plan["steps"].as_array().cloned().unwrap_or_default();
    let mut events = 0u32;
    let mut writes = 0i32;
    let mut port = 57010u16;
    for (i, s) in steps.iter().enumerate() {
        ctx.step(i);
        let k = (s["conn"].as_u64().unwrap_or(0) as usize) % 2;
        let kind = s["kind"].as_str().unwrap_or("read").to_string();
        match kind.as_str() {
            "drop" | "close_session" => {
                ctx.fault("connection_drop");
                if kind == "close_session" && sides[k].c.is_open() {
                    let req: SupportedMessage = CloseSessionRequest { request_header: sides[k].c.header(), delete_subscriptions: true }.into();
                    let _ = sides[k].c.call(req).await;
                }
                sides[k].c.reset();
                tokio::time::sleep(Duration::from_millis(150)).await;
                if s["reconnect"].as_bool().unwrap_or(true) {
                    port += 1;
                    let mut c = Conn::connect(&server, 100.0, 1 << 22, port);
                    if c.handshake(policy, mode, 2048).await {
                        sides[k] = Side { c, subs: Vec::new(), items: Vec::new(), cps: Vec::new() };
                    }
                }
                ctx.log("drop", "");
            }
            "app_write" => {
                ctx.fault("application_write");
                writes += 1;
                let aspace = server.address_space();
                let mut a = aspace.write();
                let now = DateTime::from(crate::hooks::utc_now());
                let _ = a.set_variable_value(NodeId::new(ns, format!("v{}", writes % 3)), writes, &now, &now);
                ctx.log("app_write", "");
            }
            _ => {
                if !sides[k].c.is_open() {
                    continue;
                }
                let mut rng = Rng::new(s["rseed"].as_u64().unwrap_or(1));
                let mut hdr = sides[k].c.header();
                if s["foreign_token"].as_bool().unwrap_or(false) {
                    // the other connection's session token (a client that moves its session to a new
                    // channel, or a confused / hostile one): the server looks the session up in the shared
                    // session manager and locks it from this connection's task
                    ctx.fault("foreign_session_token");
                    hdr.authentication_token = sides[1 - k].c.auth_token.clone();
                }
                let req = {
                    let mut g = G { r: &mut rng, ns, subs: sides[k].subs.clone(), items: sides[k].items.clone(), cps: sides[k].cps.clone(), client_sig: SignatureData::null() };
                    g.request(&kind, hdr)
                };
                ctx.fault("randomised_request");
                let sent = sides[k].c.send_message(&req).await;
                let r = match sent {
                    Some(id) => sides[k].c.recv_for(id, Duration::from_millis(if kind == "publish" { 250 } else { 5000 })).await,
                    None => Recv::Eof,
                };
                if let Recv::Msg(_, m) = &r {
                    match m {
                        SupportedMessage::CreateSubscriptionResponse(x) => sides[k].subs.push(x.subscription_id),
                        SupportedMessage::CreateMonitoredItemsResponse(x) => {
                            for res in x.results.iter().flatten() {
                                if res.status_code.is_good() {
                                    sides[k].items.push(res.monitored_item_id);
                                }
                            }
                        }
                        SupportedMessage::BrowseResponse(x) => {
                            for res in x.results.iter().flatten() {
                                if !res.continuation_point.is_null() {
                                    sides[k].cps.push(res.continuation_point.clone());
                                }
                            }
                        }
                        _ => {}
                    }
                }
                let outcome = l2::recv_kind(&r);
                ctx.log(&format!("{}>{}", kind, if outcome.starts_with("Fault") { "Fault".to_string() } else { outcome }), "");
                if kind == "activate" {
                    // a failed activation deactivates the session: activate again
                    let _ = sides[k].c.activate_session(Conn::anonymous_token()).await;
                }
            }
        }
        if s["event"].as_bool().unwrap_or(false) {
            events += 1;
            let aspace = server.address_space();
            let mut a = aspace.write();
            let id = NodeId::new(ns, format!("event{}", events));
            let mut ev = BaseEventType::new(&id, ObjectTypeId::BaseEventType, format!("Event{}", events), "", NodeId::objects_folder_id(), DateTime::from(crate::hooks::utc_now())).source_node(ObjectId::Server);
            let _ = ev.raise(&mut a);
            ctx.fault("event_raised");
        }
        for _ in 0..s["ticks"].as_u64().unwrap_or(0) {
            ctx.fault("timer_tick");
            tokio::time::sleep(Duration::from_millis(100)).await;
            for side in sides.iter_mut() {
                if side.c.is_open() {
                    let _ = side.c.drain(Duration::from_millis(0)).await;
                }
            }
        }
    }
    // orderly teardown of both connections inside the recorded region
    for side in sides.iter_mut() {
        side.c.reset();
    }
    tokio::time::sleep(Duration::from_millis(200)).await;
    ctx.advance(100_000 * steps.len() as u64);
    Some(rec)
}

// ------------------------------------------------------------------------------------------------
// L3: baton threads

fn l3_read(c: &mut Conn, ns: u16) -> SupportedMessage {
    ReadRequest {
        request_header: c.header(),
        max_age: 0.0,
        timestamps_to_return: TimestampsToReturn::Neither,
        nodes_to_read: Some(vec![ReadValueId { node_id: NodeId::new(ns, "v0"), attribute_id: AttributeId::Value as u32, index_range: UAString::null(), data_encoding: QualifiedName::null() }]),
    }
    .into()
}

async fn l3_thread(server: std::sync::Arc<opcua::server::prelude::Server>, t: usize, ops: Vec<Value>, ns: u16, log: std::sync::Arc<std::sync::Mutex<Vec<String>>>) {
    let mut c = Conn::connect(&server, 100.0, 1 << 22, 57100 + t as u16);
    if !c.handshake(opcua::crypto::SecurityPolicy::None, MessageSecurityMode::None, 2048).await {
        log.lock().unwrap().push(format!("t{} handshake-failed", t));
        return;
    }
    let mut sub: u32 = 0;
    for op in ops {
        if !c.is_open() {
            break;
        }
        let name = op["op"].as_str().unwrap_or("read").to_string();
        let n = op["n"].as_u64().unwrap_or(1);
        let r = match name.as_str() {
            "call_gmi" | "call_resend" => {
                let req: SupportedMessage = CallRequest {
                    request_header: c.header(),
                    methods_to_call: Some(vec![CallMethodRequest {
                        object_id: ObjectId::Server.into(),
                        method_id: if name == "call_gmi" { MethodId::Server_GetMonitoredItems.into() } else { MethodId::Server_ResendData.into() },
                        // a subscription id of nobody: the implementation looks through every session
                        input_arguments: Some(vec![Variant::UInt32(if n == 1 { 99_999 } else { sub })]),
                    }]),
                }
                .into();
                Some(c.call(req).await)
            }
            "ticks" => {
                for _ in 0..n {
                    tokio::time::sleep(Duration::from_millis(100)).await;
                    crate::hooks::advance_wall_us(100_000);
                    let _ = c.drain(Duration::from_millis(0)).await;
                }
                None
            }
            "create_sub" => {
                let req: SupportedMessage = CreateSubscriptionRequest { request_header: c.header(), requested_publishing_interval: 100.0, requested_lifetime_count: 30, requested_max_keep_alive_count: 10, max_notifications_per_publish: 0, publishing_enabled: true, priority: 0 }.into();
                let r = c.call(req).await;
                if let Recv::Msg(_, SupportedMessage::CreateSubscriptionResponse(x)) = &r {
                    sub = x.subscription_id;
                    let item = MonitoredItemCreateRequest {
                        item_to_monitor: ReadValueId { node_id: NodeId::new(ns, "v0"), attribute_id: AttributeId::Value as u32, index_range: UAString::null(), data_encoding: QualifiedName::null() },
                        monitoring_mode: MonitoringMode::Reporting,
                        requested_parameters: MonitoringParameters { client_handle: 1, sampling_interval: 100.0, filter: ExtensionObject::null(), queue_size: 2, discard_oldest: true },
                    };
                    let req: SupportedMessage = CreateMonitoredItemsRequest { request_header: c.header(), subscription_id: sub, timestamps_to_return: TimestampsToReturn::Both, items_to_create: Some(vec![item]) }.into();
                    let _ = c.call(req).await;
                }
                Some(r)
            }
            "create_session" => {
                let r = c.create_session(60_000.0).await;
                let _ = c.activate_session(Conn::anonymous_token()).await;
                Some(r)
            }
            "write" => {
                let req: SupportedMessage = WriteRequest {
                    request_header: c.header(),
                    nodes_to_write: Some(vec![WriteValue { node_id: NodeId::new(ns, "v0"), attribute_id: AttributeId::Value as u32, index_range: UAString::null(), value: DataValue::value_only(Variant::Int32(n as i32)) }]),
                }
                .into();
                Some(c.call(req).await)
            }
            "add_node" => {
                let req: SupportedMessage = AddNodesRequest {
                    request_header: c.header(),
                    nodes_to_add: Some(vec![AddNodesItem {
                        parent_node_id: NodeId::new(ns, "o0").into(),
                        reference_type_id: ReferenceTypeId::Organizes.into(),
                        requested_new_node_id: ExpandedNodeId::null(),
                        browse_name: QualifiedName::new(0, "l3"),
                        node_class: NodeClass::Object,
                        node_attributes: ExtensionObject::from_encodable(
                            ObjectId::ObjectAttributes_Encoding_DefaultBinary,
                            &ObjectAttributes { specified_attributes: (AttributesMask::DISPLAY_NAME | AttributesMask::DESCRIPTION | AttributesMask::EVENT_NOTIFIER | AttributesMask::WRITE_MASK | AttributesMask::USER_WRITE_MASK).bits(), display_name: LocalizedText::from("l3"), description: LocalizedText::from("d"), write_mask: 0, user_write_mask: 0, event_notifier: 0 },
                        ),
                        type_definition: ExpandedNodeId::from(NodeId::from(&ObjectTypeId::BaseObjectType)),
                    }]),
                }
                .into();
                Some(c.call(req).await)
            }
            "browse" => {
                let req: SupportedMessage = BrowseRequest {
                    request_header: c.header(),
                    view: ViewDescription { view_id: NodeId::null(), timestamp: DateTime::null(), view_version: 0 },
                    requested_max_references_per_node: 0,
                    nodes_to_browse: Some(vec![BrowseDescription { node_id: ObjectId::ObjectsFolder.into(), browse_direction: BrowseDirection::Forward, reference_type_id: ReferenceTypeId::HierarchicalReferences.into(), include_subtypes: true, node_class_mask: 0, result_mask: 63 }]),
                }
                .into();
                Some(c.call(req).await)
            }
            "publish" => {
                let req: SupportedMessage = PublishRequest { request_header: c.header(), subscription_acknowledgements: None }.into();
                let id = c.send_message(&req).await;
                match id {
                    Some(id) => Some(c.recv_for(id, Duration::from_millis(250)).await),
                    None => None,
                }
            }
            "close_session" => {
                let req: SupportedMessage = CloseSessionRequest { request_header: c.header(), delete_subscriptions: true }.into();
                let r = c.call(req).await;
                // a new session on the same channel, so that the thread can go on
                let _ = c.create_session(60_000.0).await;
                let _ = c.activate_session(Conn::anonymous_token()).await;
                Some(r)
            }
            "disconnect" => {
                c.reset();
                tokio::time::sleep(Duration::from_millis(150)).await;
                None
            }
            _ => {
                let req = l3_read(&mut c, ns);
                Some(c.call(req).await)
            }
        };
        log.lock().unwrap().push(format!("t{} {}>{}", t, name, r.as_ref().map(l2::recv_kind).unwrap_or_else(|| "-".into())));
    }
    c.reset();
    tokio::time::sleep(Duration::from_millis(150)).await;
}

fn exec_l3(plan: &Value, ctx: &mut Ctx) {
    use crate::baton::Baton;
    crate::hooks::set_wall_us(crate::hooks::EPOCH_US);
    let mut spec = ServerSpec::default();
    spec.users = vec![("u0".to_string(), "alice".to_string(), Some("secret".to_string()))];
    let server = std::sync::Arc::new(l2::build_server(&spec));
    let ns;
    {
        let aspace = server.address_space();
        let mut a = aspace.write();
        ns = a.register_namespace("urn:sim:swarm").unwrap_or(2);
        for i in 0..2 {
            let o = NodeId::new(ns, format!("o{}", i));
            ObjectBuilder::new(&o, format!("o{}", i), format!("o{}", i)).organized_by(ObjectId::ObjectsFolder).insert(&mut a);
            let v = NodeId::new(ns, format!("v{}", i));
            VariableBuilder::new(&v, format!("v{}", i), format!("v{}", i)).data_type(DataTypeId::Int32).value(i as i32).component_of(o.clone()).writable().insert(&mut a);
        }
    }
    let script: Option<Vec<usize>> = plan["schedule"].as_array().map(|a| a.iter().map(|v| v.as_u64().unwrap_or(0) as usize).collect());
    let baton = Baton::new(2, plan["sseed"].as_u64().unwrap_or(1), script);
    opcua::verif::sync::set_observer(Some(baton.clone()));
    let steps = plan["steps"].as_array().cloned().unwrap_or_default();
    let log = std::sync::Arc::new(std::sync::Mutex::new(Vec::<String>::new()));
    let mut handles = Vec::new();
    for t in 0..2usize {
        let ops: Vec<Value> = steps.iter().filter(|s| s["thread"].as_u64().unwrap_or(0) as usize == t).cloned().collect();
        let server = server.clone();
        let baton = baton.clone();
        let log = log.clone();
        let tseed = plan["tseed"].as_u64().unwrap_or(1) + t as u64;
        handles.push(std::thread::Builder::new().name(format!("l3-{}", t)).stack_size(16 << 20).spawn(move || {
            let b2 = baton.clone();
            let r = std::panic::catch_unwind(std::panic::AssertUnwindSafe(move || {
                let rt = l2::runtime(tseed);
                b2.enter(t);
                rt.block_on(l3_thread(server, t, ops, ns, log));
                drop(rt);
            }));
            baton.finish(t);
            let _ = r;
            // the panic hook (not run for the scheduler's Abort unwinding) recorded real panics of
            // this thread, including those inside its tokio tasks
            crate::panics::take_last().map(|c| c.describe())
        }).expect("spawn"));
    }
    let finished = baton.wait_all(std::time::Duration::from_secs(30));
    let mut thread_panics = Vec::new();
    for h in handles {
        if let Ok(Some(p)) = h.join() {
            thread_panics.push(p);
        }
    }
    opcua::verif::sync::set_observer(None);
    let st = baton.state.lock().unwrap();
    // per thread, in program order (after a deadlock verdict both threads unwind concurrently)
    for t in 0..2 {
        let prefix = format!("t{} ", t);
        for l in log.lock().unwrap().iter().filter(|l| l.starts_with(&prefix)) {
            ctx.log(l, "");
        }
    }
    ctx.add("l3_grants", st.grants);
    ctx.add("l3_decisions_with_choice", st.decisions_with_choice);
    ctx.fault("l3_schedule");
    if st.decisions_with_choice > 0 {
        ctx.nontrivial = true;
    }
    ctx.log("schedule", &st.choices.iter().map(|c| c.to_string()).collect::<Vec<_>>().join(""));
    if let Some(d) = &st.divergence {
        panic!("harness error: {}", d);
    }
    if let Some(d) = &st.deadlock {
        let parts: Vec<String> = d.waiting.iter().map(|(t, cls, kind, site, held)| format!("thread {} waits for {} ({:?}) at {} holding [{}]", t, cls, kind, site, held.join(", "))).collect();
        ctx.violate(
            "C38",
            "deadlock",
            &format!("{}/{}", d.signature_classes.join("+"), d.culprits.join("+")),
            format!("deadlock reached under the baton scheduler after {} grants: {}; schedule {}", st.grants, parts.join("; "), st.choices.iter().map(|c| c.to_string()).collect::<String>()),
        );
    } else if !finished {
        ctx.violate("C38", "l3-no-progress", "", "baton threads made no progress for 30 s of real time without a lock-level deadlock".to_string());
    }
    for p in thread_panics {
        ctx.violate("C33", "panic", "l3", format!("a baton thread panicked: {}", p));
    }
    ctx.advance(100_000 * steps.len() as u64);
}
