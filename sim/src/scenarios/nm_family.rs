//! Address-space / node-management family: C28 (reference index), C29 (node deletion), C34
//! (node management results). L2: one or two sessions on their own connections issue
//! AddReferences / DeleteReferences / DeleteNodes / AddNodes through the real services while an
//! application actor uses the public `AddressSpace` API; after every operation the reference
//! index is compared with a triple-set model.

use crate::ctx::Ctx;
use crate::framework::{Info, Scenario, Tier};
use crate::l2::{self, Conn, Recv, ServerSpec};
use crate::rng::Rng;
use opcua::core::supported_message::SupportedMessage;
use opcua::server::address_space::object::ObjectBuilder;
use opcua::server::prelude::Server;
use opcua::types::*;
use serde_json::{json, Value};
use std::collections::BTreeSet;

pub struct Nm {
    pub id: &'static str,
}

const REF_TYPES: [u32; 3] = [35, 47, 46]; // Organizes, HasComponent, HasProperty
const AGGREGATES: [u32; 2] = [47, 46];

fn ref_type(i: u64) -> ReferenceTypeId {
    match REF_TYPES[(i as usize) % 3] {
        35 => ReferenceTypeId::Organizes,
        47 => ReferenceTypeId::HasComponent,
        _ => ReferenceTypeId::HasProperty,
    }
}

fn ref_num(t: &NodeId) -> u32 {
    match t.identifier {
        Identifier::Numeric(n) if t.namespace == 0 => n,
        _ => 0,
    }
}

type Triple = (String, u32, String);

struct World {
    server: Server,
    conns: Vec<Conn>,
    universe: Vec<NodeId>,
    nodes: BTreeSet<String>,
    refs: BTreeSet<Triple>,
}

fn key(n: &NodeId) -> String {
    n.to_string()
}

impl World {
    fn node(&self, i: u64) -> NodeId {
        self.universe[(i as usize) % self.universe.len()].clone()
    }

    /// (exists, forward refs, inverse refs) restricted to the universe.
    fn observe(&self, u: &NodeId) -> (bool, BTreeSet<(u32, String)>, BTreeSet<(u32, String)>) {
        let aspace = self.server.address_space();
        let a = aspace.read();
        let uni: BTreeSet<String> = self.universe.iter().map(key).collect();
        let mut fwd = BTreeSet::new();
        if let Some(refs) = a.find_references::<NodeId>(u, None) {
            for r in refs {
                if uni.contains(&key(&r.target_node)) && REF_TYPES.contains(&ref_num(&r.reference_type)) {
                    fwd.insert((ref_num(&r.reference_type), key(&r.target_node)));
                }
            }
        }
        let mut inv = BTreeSet::new();
        if let Some(refs) = a.find_inverse_references::<NodeId>(u, None) {
            for r in refs {
                if uni.contains(&key(&r.target_node)) && REF_TYPES.contains(&ref_num(&r.reference_type)) {
                    inv.insert((ref_num(&r.reference_type), key(&r.target_node)));
                }
            }
        }
        (a.node_exists(u), fwd, inv)
    }

    fn digest(&self) -> String {
        let mut s = String::new();
        for u in self.universe.iter() {
            let (e, f, i) = self.observe(u);
            s.push_str(&format!("{}:{}:{:?}:{:?};", key(u), e, f, i));
        }
        s
    }

    fn has_reference(&self, s: &NodeId, t: &NodeId, ty: u32) -> bool {
        let aspace = self.server.address_space();
        let a = aspace.read();
        a.has_reference(s, t, NodeId::new(0, ty))
    }

    /// Compare the real index with the model for every node of the universe.
    fn check_index(&self, after: &str, ctx: &mut Ctx) {
        for u in self.universe.iter() {
            let ku = key(u);
            let (exists, fwd, inv) = self.observe(u);
            let m_fwd: BTreeSet<(u32, String)> = self.refs.iter().filter(|t| t.0 == ku).map(|t| (t.1, t.2.clone())).collect();
            let m_inv: BTreeSet<(u32, String)> = self.refs.iter().filter(|t| t.2 == ku).map(|t| (t.1, t.0.clone())).collect();
            if exists != self.nodes.contains(&ku) {
                ctx.violate("C28", "node-existence-mismatch", after, format!("after {}: node {} exists={} but the model says {}", after, ku, exists, self.nodes.contains(&ku)));
            }
            if fwd != m_fwd {
                let lost: Vec<_> = m_fwd.difference(&fwd).collect();
                let extra: Vec<_> = fwd.difference(&m_fwd).collect();
                ctx.violate(
                    "C28",
                    "forward-references-mismatch",
                    after,
                    format!("after {}: forward references of {}: missing {:?}, unexpected {:?}", after, ku, lost, extra),
                );
            }
            if inv != m_inv {
                let lost: Vec<_> = m_inv.difference(&inv).collect();
                let extra: Vec<_> = inv.difference(&m_inv).collect();
                ctx.violate(
                    "C28",
                    "inverse-references-mismatch",
                    after,
                    format!("after {}: inverse references of {}: missing {:?}, unexpected {:?}", after, ku, lost, extra),
                );
            }
        }
        // existence checks for every model triple and for the same triples reversed
        for (s, ty, t) in self.refs.iter() {
            let sn = self.universe.iter().find(|n| key(n) == *s).cloned();
            let tn = self.universe.iter().find(|n| key(n) == *t).cloned();
            if let (Some(sn), Some(tn)) = (sn, tn) {
                if !self.has_reference(&sn, &tn, *ty) {
                    ctx.violate("C28", "has-reference-mismatch", after, format!("after {}: has_reference({}, {}, {}) is false for an existing reference", after, s, t, ty));
                }
                let rev = (t.clone(), *ty, s.clone());
                if !self.refs.contains(&rev) && self.has_reference(&tn, &sn, *ty) {
                    ctx.violate("C28", "has-reference-mismatch", after, format!("after {}: has_reference({}, {}, {}) is true for a reference that was never added", after, t, s, ty));
                }
            }
        }
    }

    /// C29: no reference may mention a removed node.
    fn check_dangling(&self, removed: &BTreeSet<String>, ctx: &mut Ctx) {
        for u in self.universe.iter() {
            let (exists, fwd, inv) = self.observe(u);
            let ku = key(u);
            if removed.contains(&ku) {
                if exists {
                    ctx.violate("C29", "node-survived-delete", "", format!("node {} still exists after its (aggregating) parent was deleted", ku));
                }
                if !fwd.is_empty() || !inv.is_empty() {
                    ctx.violate("C29", "dangling-reference", "from-removed", format!("removed node {} still has references {:?} / {:?}", ku, fwd, inv));
                }
            } else {
                for (_, t) in fwd.iter().chain(inv.iter()) {
                    if removed.contains(t) {
                        ctx.violate("C29", "dangling-reference", "to-removed", format!("node {} still references removed node {}", ku, t));
                    }
                }
            }
        }
    }

    fn model_delete(&mut self, n: &NodeId) -> BTreeSet<String> {
        // closure over forward aggregating references
        let mut removed: BTreeSet<String> = BTreeSet::new();
        let mut stack = vec![key(n)];
        while let Some(x) = stack.pop() {
            if !removed.insert(x.clone()) {
                continue;
            }
            for (s, ty, t) in self.refs.iter() {
                if *s == x && AGGREGATES.contains(ty) && !removed.contains(t) {
                    stack.push(t.clone());
                }
            }
        }
        self.nodes.retain(|k| !removed.contains(k));
        self.refs.retain(|t| !removed.contains(&t.0) && !removed.contains(&t.2));
        removed
    }
}

fn exec_plan(id: &str, plan: &Value, ctx: &mut Ctx) {
    let rt = l2::runtime(plan["tseed"].as_u64().unwrap_or(1));
    rt.block_on(async {
        crate::hooks::follow_tokio();
        let mut spec = ServerSpec::default();
        spec.modify_address_space = plan["can_modify"].as_bool().unwrap_or(true);
        let server = l2::build_server(&spec);
        let n = plan["nodes"].as_u64().unwrap_or(5);
        let orphans = plan["orphans"].as_u64().unwrap_or(0);
        let objects: NodeId = ObjectId::ObjectsFolder.into();
        let mut universe = vec![objects.clone()];
        let mut nodes = BTreeSet::new();
        let mut refs = BTreeSet::new();
        nodes.insert(key(&objects));
        {
            let aspace = server.address_space();
            let mut a = aspace.write();
            let ns = a.register_namespace("urn:sim:nm").unwrap_or(2);
            for i in 0..n {
                let node = NodeId::new(ns, format!("n{}", i));
                if i >= n.saturating_sub(orphans) {
                    // a node nothing refers to yet (its first referrer comes from the plan)
                    ObjectBuilder::new(&node, format!("n{}", i), format!("n{}", i)).insert(&mut a);
                } else {
                    ObjectBuilder::new(&node, format!("n{}", i), format!("n{}", i)).organized_by(objects.clone()).insert(&mut a);
                    refs.insert((key(&objects), 35, key(&node)));
                }
                nodes.insert(key(&node));
                universe.push(node);
            }
            // candidate ids that AddNodes may produce are part of the observed universe
            let ins = a.internal_namespace();
            for i in 0..60u32 {
                let c = NodeId::new(ins, i);
                if !universe.contains(&c) {
                    universe.push(c);
                }
            }
            for i in 0..6 {
                universe.push(NodeId::new(ns, format!("x{}", i)));
            }
        }
        let nsess = plan["sessions"].as_u64().unwrap_or(1).max(1);
        let mut conns = Vec::new();
        for s in 0..nsess {
            let mut c = Conn::connect(&server, 100.0, 1 << 20, 51000 + s as u16);
            if !c.handshake(opcua::crypto::SecurityPolicy::None, MessageSecurityMode::None, 2048).await {
                ctx.log("handshake-failed", "");
                return;
            }
            conns.push(c);
        }
        let mut w = World {
            server,
            conns,
            universe,
            nodes,
            refs,
        };
        // Plant nodes whose numeric ids sit just ahead of the server's id counter (learned by adding a
        // probe node with a server-assigned id), so that later server-assigned ids would collide.
        let seeded = plan["seed_numeric"].as_u64().unwrap_or(0);
        if seeded > 0 {
            let hdr = w.conns[0].header();
            let req: SupportedMessage = AddNodesRequest {
                request_header: hdr,
                nodes_to_add: Some(vec![AddNodesItem {
                    parent_node_id: objects.clone().into(),
                    reference_type_id: ReferenceTypeId::Organizes.into(),
                    requested_new_node_id: ExpandedNodeId::null(),
                    browse_name: QualifiedName::new(0, "probe"),
                    node_class: NodeClass::Object,
                    node_attributes: ExtensionObject::from_encodable(
                        ObjectId::ObjectAttributes_Encoding_DefaultBinary,
                        &ObjectAttributes {
                            specified_attributes: (AttributesMask::DISPLAY_NAME | AttributesMask::DESCRIPTION | AttributesMask::EVENT_NOTIFIER | AttributesMask::WRITE_MASK | AttributesMask::USER_WRITE_MASK).bits(),
                            display_name: LocalizedText::from("probe"),
                            description: LocalizedText::from("d"),
                            write_mask: 0,
                            user_write_mask: 0,
                            event_notifier: 0,
                        },
                    ),
                    type_definition: ExpandedNodeId::from(NodeId::from(&ObjectTypeId::BaseObjectType)),
                }]),
            }
            .into();
            if let Recv::Msg(_, SupportedMessage::AddNodesResponse(resp)) = w.conns[0].call(req).await {
                if let Some(res) = resp.results.as_ref().and_then(|v| v.first()) {
                    if let (true, Identifier::Numeric(c)) = (res.status_code.is_good(), res.added_node_id.identifier.clone()) {
                        let aspace = w.server.address_space();
                        let mut a = aspace.write();
                        let ins = a.internal_namespace();
                        for i in 0..seeded {
                            let node = NodeId::new(ins, c + 1 + 2 * i as u32);
                            ObjectBuilder::new(&node, format!("k{}", i), format!("k{}", i)).organized_by(objects.clone()).insert(&mut a);
                            if !w.universe.contains(&node) {
                                w.universe.push(node);
                            }
                        }
                        ctx.probe("ids_planted_ahead_of_counter");
                    }
                }
            }
        }
        // Creating sessions registers diagnostics nodes whose ids come from the same global counter
        // as server-assigned node ids: start the model from what is really there.
        {
            let mut nodes = BTreeSet::new();
            let mut refs = BTreeSet::new();
            for u in w.universe.iter() {
                let (exists, fwd, _) = w.observe(u);
                if exists {
                    nodes.insert(key(u));
                }
                for (ty, t) in fwd {
                    refs.insert((key(u), ty, t));
                }
            }
            w.nodes = nodes;
            w.refs = refs;
        }
        w.check_index("setup", ctx);
        let steps = plan["steps"].as_array().cloned().unwrap_or_default();
        for (i, s) in steps.iter().enumerate() {
            ctx.step(i);
            let op = s["op"].as_str().unwrap_or("");
            let via_app = s["via"].as_str().unwrap_or("service") == "app";
            let sess = (s["sess"].as_u64().unwrap_or(0) as usize) % w.conns.len();
            if w.conns.len() > 1 && sess > 0 {
                ctx.fault("second_session");
            }
            // a node is addressed by its position in the universe or, for the ids AddNodes may be asked for, by name
            let a = match s["a_id"].as_str() {
                Some(name) => NodeId::new(w.universe[1].namespace, name.to_string()),
                None => w.node(s["a"].as_u64().unwrap_or(1)),
            };
            let b = w.node(s["b"].as_u64().unwrap_or(2));
            let ty = ref_type(s["ty"].as_u64().unwrap_or(0));
            let tyn = REF_TYPES[(s["ty"].as_u64().unwrap_or(0) as usize) % 3];
            let before = w.digest();
            let mut outcome = String::new();
            match op {
                "add_ref" => {
                    let fwd = s["forward"].as_bool().unwrap_or(true);
                    if a == b && via_app {
                        continue; // self references are refused by a panic in the API by design
                    }
                    if w.refs.contains(&(key(&b), tyn, key(&a))) {
                        ctx.fault("opposite_direction_pair");
                    }
                    if via_app {
                        if !w.nodes.contains(&key(&a)) || !w.nodes.contains(&key(&b)) {
                            continue;
                        }
                        let aspace = w.server.address_space();
                        aspace.write().insert_reference(&a, &b, ty);
                        w.refs.insert((key(&a), tyn, key(&b)));
                        outcome = "app".into();
                    } else {
                        let class = NodeClass::Object;
                        let hdr = w.conns[sess].header();
                        let req: SupportedMessage = AddReferencesRequest {
                            request_header: hdr,
                            references_to_add: Some(vec![AddReferencesItem {
                                source_node_id: a.clone(),
                                reference_type_id: ty.into(),
                                is_forward: fwd,
                                target_server_uri: UAString::null(),
                                target_node_id: b.clone().into(),
                                target_node_class: class,
                            }]),
                        }
                        .into();
                        let r = w.conns[sess].call(req).await;
                        match &r {
                            Recv::Msg(_, SupportedMessage::AddReferencesResponse(resp)) => {
                                let st = resp.results.as_ref().map(|v| v[0]).unwrap_or(StatusCode::BadUnexpectedError);
                                outcome = st.name().to_string();
                                if st.is_good() {
                                    if fwd {
                                        w.refs.insert((key(&a), tyn, key(&b)));
                                    } else {
                                        w.refs.insert((key(&b), tyn, key(&a)));
                                    }
                                } else if w.digest() != before {
                                    ctx.violate("C34", "bad-result-changed-state", "AddReferences", format!("AddReferences returned {} but the address space changed", st.name()));
                                }
                            }
                            other => outcome = l2::recv_kind(other),
                        }
                    }
                }
                "del_ref" => {
                    let fwd = s["forward"].as_bool().unwrap_or(true);
                    let bidir = s["bidir"].as_bool().unwrap_or(false);
                    if w.refs.contains(&(key(&b), tyn, key(&a))) && w.refs.contains(&(key(&a), tyn, key(&b))) {
                        ctx.fault("delete_one_of_opposite_pair");
                    }
                    if via_app {
                        let aspace = w.server.address_space();
                        let deleted = aspace.write().delete_reference(&a, &b, ty);
                        let had = w.refs.remove(&(key(&a), tyn, key(&b)));
                        outcome = format!("app:{}", deleted);
                        if deleted != had {
                            ctx.violate("C28", "delete-result-mismatch", "", format!("delete_reference({}, {}, {}) returned {} but the reference {}", key(&a), key(&b), tyn, deleted, if had { "existed" } else { "did not exist" }));
                        }
                    } else {
                        let hdr = w.conns[sess].header();
                        let req: SupportedMessage = DeleteReferencesRequest {
                            request_header: hdr,
                            references_to_delete: Some(vec![DeleteReferencesItem {
                                source_node_id: a.clone(),
                                reference_type_id: ty.into(),
                                is_forward: fwd,
                                target_node_id: b.clone().into(),
                                delete_bidirectional: bidir,
                            }]),
                        }
                        .into();
                        let r = w.conns[sess].call(req).await;
                        match &r {
                            Recv::Msg(_, SupportedMessage::DeleteReferencesResponse(resp)) => {
                                let st = resp.results.as_ref().map(|v| v[0]).unwrap_or(StatusCode::BadUnexpectedError);
                                outcome = st.name().to_string();
                                if st.is_good() {
                                    if bidir {
                                        w.refs.remove(&(key(&a), tyn, key(&b)));
                                        w.refs.remove(&(key(&b), tyn, key(&a)));
                                    } else if fwd {
                                        w.refs.remove(&(key(&a), tyn, key(&b)));
                                    } else {
                                        w.refs.remove(&(key(&b), tyn, key(&a)));
                                    }
                                } else if w.digest() != before {
                                    ctx.violate("C34", "bad-result-changed-state", "DeleteReferences", format!("DeleteReferences returned {} but the address space changed", st.name()));
                                }
                            }
                            other => outcome = l2::recv_kind(other),
                        }
                    }
                }
                "del_node" => {
                    if a == w.universe[0] {
                        continue; // never delete the Objects folder
                    }
                    let target_refs = s["target_refs"].as_bool().unwrap_or(true);
                    // probe: is there an aggregation cycle reachable from a?
                    {
                        let mut seen = BTreeSet::new();
                        let mut stack = vec![key(&a)];
                        let mut cyc = false;
                        while let Some(x) = stack.pop() {
                            if !seen.insert(x.clone()) {
                                cyc = true;
                                continue;
                            }
                            for (s2, ty2, t2) in w.refs.iter() {
                                if *s2 == x && AGGREGATES.contains(ty2) {
                                    stack.push(t2.clone());
                                }
                            }
                        }
                        if cyc {
                            ctx.fault("aggregation_cycle_or_shared_child");
                        }
                    }
                    let mut good = false;
                    if via_app {
                        let aspace = w.server.address_space();
                        let r = aspace.write().delete(&a, target_refs);
                        outcome = format!("app:{}", r);
                        good = r;
                    } else {
                        let hdr = w.conns[sess].header();
                        let req: SupportedMessage = DeleteNodesRequest {
                            request_header: hdr,
                            nodes_to_delete: Some(vec![DeleteNodesItem {
                                node_id: a.clone(),
                                delete_target_references: target_refs,
                            }]),
                        }
                        .into();
                        let r = w.conns[sess].call(req).await;
                        match &r {
                            Recv::Msg(_, SupportedMessage::DeleteNodesResponse(resp)) => {
                                let st = resp.results.as_ref().map(|v| v[0]).unwrap_or(StatusCode::BadUnexpectedError);
                                outcome = st.name().to_string();
                                good = st.is_good();
                                if !good && w.digest() != before {
                                    ctx.violate("C34", "bad-result-changed-state", "DeleteNodes", format!("DeleteNodes returned {} but the address space changed", st.name()));
                                }
                            }
                            other => outcome = l2::recv_kind(other),
                        }
                    }
                    if good && target_refs {
                        let removed = w.model_delete(&a);
                        w.check_dangling(&removed, ctx);
                    } else if good {
                        // without target references the statement of C29 does not apply; keep the model in
                        // step by re-reading what is there
                        let removed = w.model_delete(&a);
                        let _ = removed;
                        // references were deliberately left behind: resynchronise the model from the real index
                        let mut t = BTreeSet::new();
                        for u in w.universe.iter() {
                            let (_, fwd, _) = w.observe(u);
                            for (ty2, tgt) in fwd {
                                t.insert((key(u), ty2, tgt));
                            }
                        }
                        w.refs = t;
                    }
                }
                "add_node" => {
                    let parent = if s["missing_parent"].as_bool().unwrap_or(false) { NodeId::new(w.universe[1].namespace, "no-such-parent") } else { a.clone() };
                    let parent_existed = w.observe(&parent).0;
                    if !parent_existed {
                        ctx.fault("missing_parent");
                    }
                    let requested = match s["id"].as_str().unwrap_or("null") {
                        "null" => NodeId::null(),
                        other => {
                            let ns = w.universe[1].namespace;
                            NodeId::new(ns, other.to_string())
                        }
                    };
                    let name = s["name"].as_str().unwrap_or("child").to_string();
                    let remote_parent = s["parent_server_index"].as_u64().unwrap_or(0) as u32;
                    let hdr = w.conns[sess].header();
                    let req: SupportedMessage = AddNodesRequest {
                        request_header: hdr,
                        nodes_to_add: Some(vec![AddNodesItem {
                            parent_node_id: ExpandedNodeId {
                                node_id: parent.clone(),
                                namespace_uri: UAString::null(),
                                server_index: remote_parent,
                            },
                            reference_type_id: ty.into(),
                            requested_new_node_id: requested.clone().into(),
                            browse_name: QualifiedName::new(0, name.clone()),
                            node_class: NodeClass::Object,
                            node_attributes: ExtensionObject::from_encodable(
                                ObjectId::ObjectAttributes_Encoding_DefaultBinary,
                                &ObjectAttributes {
                                    specified_attributes: (AttributesMask::DISPLAY_NAME | AttributesMask::DESCRIPTION | AttributesMask::EVENT_NOTIFIER | AttributesMask::WRITE_MASK | AttributesMask::USER_WRITE_MASK).bits(),
                                    display_name: LocalizedText::from(name.as_str()),
                                    description: LocalizedText::from("d"),
                                    write_mask: 0,
                                    user_write_mask: 0,
                                    event_notifier: 0,
                                },
                            ),
                            type_definition: if s["bad_type"].as_bool().unwrap_or(false) {
                                ctx.fault("invalid_type_definition");
                                // null, or a node that is not an object type
                                if i % 2 == 0 { ExpandedNodeId::null() } else { ExpandedNodeId::from(NodeId::from(&ObjectId::ObjectsFolder)) }
                            } else {
                                ExpandedNodeId::from(NodeId::from(&ObjectTypeId::BaseObjectType))
                            },
                        }]),
                    }
                    .into();
                    let r = w.conns[sess].call(req).await;
                    match &r {
                        Recv::Msg(_, SupportedMessage::AddNodesResponse(resp)) => {
                            let res = resp.results.as_ref().and_then(|v| v.first().cloned());
                            if let Some(res) = res {
                                outcome = res.status_code.name().to_string();
                                if res.status_code.is_good() && remote_parent != 0 {
                                    ctx.violate("C34", "good-for-remote-parent", "", format!("AddNodes returned Good although the given parent is on server index {} and cannot reference the node", remote_parent));
                                }
                                if res.status_code.is_good() && !parent_existed && remote_parent == 0 {
                                    ctx.violate("C34", "good-for-missing-parent", "", format!("AddNodes returned Good although the given parent {} does not exist, so nothing references the new node from it", key(&parent)));
                                }
                                if res.status_code.is_good() {
                                    let newid = res.added_node_id.clone();
                                    let k = key(&newid);
                                    if requested.is_null() {
                                        ctx.probe("server_assigned_id");
                                        if w.nodes.contains(&k) {
                                            ctx.violate("C34", "assigned-id-collides", "", format!("server-assigned node id {} is the id of an existing node", k));
                                        }
                                    }
                                    if !w.universe.contains(&newid) {
                                        w.universe.push(newid.clone());
                                    }
                                    let (exists, _, inv) = w.observe(&newid);
                                    if !exists {
                                        ctx.violate("C34", "good-but-node-missing", "", format!("AddNodes returned Good with id {} but no such node exists", k));
                                    } else if !w.nodes.contains(&k) {
                                        // is it referenced from the parent with the given type?
                                        if !w.has_reference(&parent, &newid, tyn) {
                                            let wrong_way = w.has_reference(&newid, &parent, tyn);
                                            ctx.violate(
                                                "C34",
                                                "good-but-not-referenced-from-parent",
                                                if wrong_way { "reference-points-to-parent" } else { "no-reference" },
                                                format!("AddNodes returned Good for {} but parent {} has no forward {} reference to it (inverse refs seen: {:?})", k, key(&parent), tyn, inv),
                                            );
                                        }
                                    }
                                    // resynchronise the model with what the server did for this new node
                                    w.nodes.insert(k.clone());
                                    let (_, fwd, inv) = w.observe(&newid);
                                    for (ty2, t2) in fwd {
                                        w.refs.insert((k.clone(), ty2, t2));
                                    }
                                    for (ty2, s2) in inv {
                                        w.refs.insert((s2, ty2, k.clone()));
                                    }
                                } else if w.digest() != before {
                                    ctx.violate("C34", "bad-result-changed-state", "AddNodes", format!("AddNodes returned {} but the address space changed", res.status_code.name()));
                                }
                            }
                        }
                        other => outcome = l2::recv_kind(other),
                    }
                }
                _ => {}
            }
            ctx.log(&format!("{}{}>{}", op, if via_app { "@app" } else { "" }, outcome), &format!("{} {} {}", key(&a), tyn, key(&b)));
            if id != "C34" || op != "add_node" {
                let before_n = ctx.violations.len();
                w.check_index(op, ctx);
                if ctx.violations.len() > before_n {
                    // report a divergence once, at the operation that caused it: continue from the real state
                    let mut nodes = BTreeSet::new();
                    let mut refs = BTreeSet::new();
                    for u in w.universe.iter() {
                        let (exists, fwd, _) = w.observe(u);
                        if exists {
                            nodes.insert(key(u));
                        }
                        for (ty2, t2) in fwd {
                            refs.insert((key(u), ty2, t2));
                        }
                    }
                    w.nodes = nodes;
                    w.refs = refs;
                }
            }
            if w.conns.iter().any(|c| !c.is_open()) {
                ctx.log("connection-lost", "");
                break;
            }
        }
        ctx.advance(1000 * steps.len() as u64);
    });
}

impl Scenario for Nm {
    fn id(&self) -> &'static str {
        self.id
    }
    fn info(&self) -> Info {
        let (rule, faults): (&'static str, Vec<&'static str>) = match self.id {
            "C28" => ("run = seeded history of AddReferences / DeleteReferences / DeleteNodes (1-2 sessions through the real services) and insert_reference / delete_reference / delete (application actor on the public API) over 3-6 nodes (some of them referenced by nothing at the start) x 3 reference types, biased towards opposite-direction pairs; after every step forward references, inverse references and has_reference of every node are compared with a triple-set model. non-trivial = history creates an opposite-direction pair, uses the second session or deletes a node; distinct = op/outcome hash.", vec!["opposite_direction_pair", "delete_one_of_opposite_pair", "second_session"]),
            "C29" => ("run = random small reference graph (HasComponent / HasProperty cycles, shared children, Organizes) then DeleteNodes with delete_target_references on a random node, through the service or the API; oracle: the call returns (worker process alive, watchdog), the node and everything it aggregates is gone, no reference mentions a removed node. non-trivial = the deleted node reaches an aggregation cycle or a shared child; distinct = op/outcome hash.", vec!["aggregation_cycle_or_shared_child"]),
            _ => ("run = seeded history of AddNodes (requested and server-assigned ids, new and existing browse names, parents, reference types), AddReferences, DeleteNodes, DeleteReferences with numeric node ids pre-seeded in the range of the server's id counter; oracle: Good AddNodes => node exists and parent has a forward reference of the given type to it, Bad item => state digest unchanged, assigned ids never collide. non-trivial = a server-assigned id was requested or an item was rejected; distinct = op/outcome hash.", vec!["second_session", "missing_parent", "invalid_type_definition"]),
        };
        Info {
            level: "exploration",
            exhaustive: false,
            layer: "L2 (real server tasks, raw clients) + application actor on the AddressSpace API",
            rule,
            real: vec!["NodeManagementService", "AddressSpace (insert, delete, insert_reference, delete_reference)", "References index", "MessageHandler / session validation", "server transport tasks"],
            stubbed: vec!["TCP socket (in-memory duplex)"],
            assumptions: vec!["requests are serialised by the address-space write lock, so interleaving is at request granularity", "observation restricted to a universe of harness-known node ids and three reference types"],
            fault_kinds: faults,
        }
    }
    fn runs(&self, tier: Tier) -> u64 {
        let t = tier == Tier::Thorough;
        match self.id {
            "C28" => if t { 60_000 } else { 3000 },
            "C29" => if t { 40_000 } else { 2500 },
            _ => if t { 40_000 } else { 2500 },
        }
    }
    fn gen(&self, seed: u64, run: u64, tier: Tier) -> Value {
        let mut rng = Rng::new(crate::framework::run_seed(seed, self.id, run));
        let long = tier == Tier::Thorough;
        let mut steps = Vec::new();
        match self.id {
            "C28" => {
                let n = rng.urange(3, 5) as u64;
                let len = if long { rng.urange(5, 40) } else { rng.urange(3, 25) };
                for _ in 0..len {
                    let a = 1 + rng.below(n);
                    let mut b = 1 + rng.below(n);
                    if a == b {
                        b = 1 + (b % n);
                    }
                    let ty = rng.below(3);
                    let via = if rng.chance(0.4) { "app" } else { "service" };
                    match rng.below(10) {
                        0..=3 => steps.push(json!({"op": "add_ref", "a": a, "b": b, "ty": ty, "forward": rng.chance(0.7), "via": via, "sess": rng.below(2)})),
                        4 => {
                            // deliberately create the opposite direction of something
                            steps.push(json!({"op": "add_ref", "a": a, "b": b, "ty": ty, "forward": true, "via": via, "sess": rng.below(2)}));
                            steps.push(json!({"op": "add_ref", "a": b, "b": a, "ty": ty, "forward": true, "via": via, "sess": rng.below(2)}));
                        }
                        5..=7 => steps.push(json!({"op": "del_ref", "a": a, "b": b, "ty": ty, "forward": rng.chance(0.7), "bidir": rng.chance(0.2), "via": via, "sess": rng.below(2)})),
                        8 => steps.push(json!({"op": "del_node", "a": a, "target_refs": true, "via": via, "sess": rng.below(2)})),
                        _ => steps.push(json!({"op": "del_ref", "a": 0, "b": b, "ty": 0, "forward": true, "via": via, "sess": rng.below(2)})),
                    }
                }
                let orphans = if rng.chance(0.3) { rng.urange(1, n as usize - 1) } else { 0 };
                json!({"nodes": n, "orphans": orphans, "sessions": rng.urange(1, 2), "tseed": rng.next_u64() >> 12, "steps": steps})
            }
            "C29" => {
                let n = rng.urange(3, 6) as u64;
                let edges = rng.urange(2, 10);
                for _ in 0..edges {
                    let a = 1 + rng.below(n);
                    let mut b = 1 + rng.below(n);
                    if a == b {
                        b = 1 + (b % n);
                    }
                    steps.push(json!({"op": "add_ref", "a": a, "b": b, "ty": *rng.pick(&[1u64, 1, 2, 0]), "forward": true, "via": "app"}));
                }
                if rng.chance(0.5) {
                    // make sure a cycle exists
                    let a = 1 + rng.below(n);
                    let b = 1 + (a % n);
                    steps.push(json!({"op": "add_ref", "a": a, "b": b, "ty": 1, "forward": true, "via": "app"}));
                    steps.push(json!({"op": "add_ref", "a": b, "b": a, "ty": *rng.pick(&[1u64, 2]), "forward": true, "via": "app"}));
                }
                if rng.chance(0.35) {
                    // a history before the delete: some of the references are removed again first
                    let k = rng.urange(1, 3);
                    for _ in 0..k {
                        let e = steps[rng.below(steps.len() as u64) as usize].clone();
                        steps.push(json!({"op": "del_ref", "a": e["a"], "b": e["b"], "ty": e["ty"], "forward": true, "bidir": rng.chance(0.3), "via": if rng.chance(0.5) { "app" } else { "service" }, "sess": 0}));
                    }
                }
                let dels = rng.urange(1, 2);
                for _ in 0..dels {
                    steps.push(json!({"op": "del_node", "a": 1 + rng.below(n), "target_refs": true, "via": if rng.chance(0.5) { "app" } else { "service" }}));
                }
                let orphans = if rng.chance(0.3) { rng.urange(1, n as usize - 1) } else { 0 };
                json!({"nodes": n, "orphans": orphans, "sessions": 1, "tseed": rng.next_u64() >> 12, "steps": steps})
            }
            _ => {
                let n = rng.urange(2, 4) as u64;
                let len = if long { rng.urange(4, 30) } else { rng.urange(3, 16) };
                let names = ["child", "child", "other", "n0", "x y", "a.b", "q"];
                if rng.chance(0.15) {
                    // a node is added, deleted (sometimes leaving the references that point at it) and added
                    // again under the same or another parent with the same or another reference type
                    let id = format!("x{}", rng.below(6));
                    let p1 = rng.below(n + 1);
                    let p2 = if rng.chance(0.7) { p1 } else { rng.below(n + 1) };
                    steps.push(json!({"op": "add_node", "a": p1, "ty": rng.below(3), "id": id, "name": "re", "sess": 0}));
                    steps.push(json!({"op": "del_node", "a_id": id, "target_refs": rng.chance(0.4), "via": "service", "sess": rng.below(2)}));
                    steps.push(json!({"op": "add_node", "a": p2, "ty": rng.below(3), "id": id, "name": "re", "sess": rng.below(2)}));
                }
                for _ in 0..len {
                    let a = rng.below(n + 1);
                    let b = 1 + rng.below(n);
                    match rng.below(10) {
                        0..=5 => {
                            let id = if rng.chance(0.6) { "null".to_string() } else { format!("x{}", rng.below(6)) };
                            steps.push(json!({"op": "add_node", "a": if rng.chance(0.1) { 30 + rng.below(8) } else { a }, "ty": rng.below(3), "id": id, "name": *rng.pick(&names), "sess": rng.below(2), "parent_server_index": if rng.chance(0.1) { 1 } else { 0 }, "missing_parent": rng.chance(0.08), "bad_type": rng.chance(0.1)}));
                        }
                        6 => steps.push(json!({"op": "add_ref", "a": a, "b": b, "ty": rng.below(3), "forward": rng.chance(0.7), "via": "service", "sess": rng.below(2)})),
                        7 => steps.push(json!({"op": "del_ref", "a": a, "b": b, "ty": rng.below(3), "forward": rng.chance(0.7), "bidir": rng.chance(0.3), "via": "service", "sess": rng.below(2)})),
                        _ => steps.push(json!({"op": "del_node", "a": 1 + rng.below(n + 8), "target_refs": rng.chance(0.65), "via": "service", "sess": rng.below(2)})),
                    }
                }
                json!({"nodes": n, "sessions": rng.urange(1, 2), "seed_numeric": rng.urange(0, 6), "can_modify": rng.chance(0.9), "tseed": rng.next_u64() >> 12, "steps": steps})
            }
        }
    }
    fn exec(&self, plan: &Value, ctx: &mut Ctx) {
        exec_plan(self.id, plan, ctx)
    }
    fn panic_property(&self) -> &'static str {
        match self.id {
            "C29" => "C29",
            "C28" => "C28",
            _ => "C33",
        }
    }
    fn watchdog_s(&self) -> u64 {
        30
    }
}
