//! C36 Each received notification is acknowledged exactly once.
//!
//! Client-side L2: the real client `Session` (session event loop, subscription event loop,
//! `Session::publish`, `SubscriptionState`) against a scripted raw server that decides, for every
//! PublishRequest it receives, whether to answer with a notification, a keep-alive, a service
//! fault, late, or not at all. The server records the acknowledgements carried by every publish
//! request; the oracle runs over that history.

use crate::ctx::Ctx;
use crate::framework::{Info, Scenario, Tier};
use crate::l2;
use crate::rawsrv::{self, RawServer, SrvRecv};
use crate::rng::Rng;
use opcua::client::{ClientBuilder, DataChangeCallback};
use opcua::core::supported_message::SupportedMessage;
use opcua::types::*;
use serde_json::{json, Value};
use std::collections::{BTreeMap, BTreeSet};
use std::sync::atomic::{AtomicBool, Ordering};
use std::sync::Arc;
use std::time::Duration;
use tokio::time::Instant;

pub struct C36;

impl Scenario for C36 {
    fn id(&self) -> &'static str {
        "C36"
    }
    fn info(&self) -> Info {
        Info {
            level: "exploration",
            exhaustive: false,
            layer: "client-side L2 (real client Session + SessionEventLoop + SubscriptionEventLoop + transport on paused tokio, scripted raw server peer)",
            rule: "run = client settings (publish time-out 150..600 ms, 1-3 publish requests in flight, min publish interval 10..50 ms) and a seeded history of client operations (create / delete subscription, wait) and server decisions consumed one per arriving PublishRequest: notification (optionally more_notifications), keep-alive, service fault (BadTooManyPublishRequests, BadNoSubscription, BadInternalError, BadTimeout), silence (client time-out), late answer, held answer; then a fault-free quiescence phase. Oracle over the server-side history: (1) every data notification delivered in time is acknowledged in a later publish request; (2) once a request carrying an acknowledgement was answered successfully, that acknowledgement is never carried again (and never twice in one request); (3) acknowledgements carried by a failed request are carried again by a later one. non-trivial = at least one publish failure or concurrent publish requests; distinct = decision/outcome hash.",
            real: vec!["Session::publish / take_acknowledgements / re_queue_acknowledgements / handle_notification", "SubscriptionEventLoop::run", "SessionEventLoop (connect, create + activate session)", "Session::create_subscription / delete_subscription", "AsyncSecureChannel, client TcpTransport, TransportState"],
            stubbed: vec!["TCP socket (verif::net connector seam)", "server (scripted raw peer; answers CreateSession / ActivateSession / CreateSubscription / DeleteSubscriptions with canned good responses)"],
            assumptions: vec!["security policy None, anonymous user", "connection loss / reconnect is outside the property's quantifier and not injected", "a publish request counts as successful only when the server's PublishResponse left >= 3 ms before the client's deadline, as failed only when no response left before deadline + 3 ms; anything in between is treated as either"],
            fault_kinds: vec!["publish_fault", "publish_silence", "publish_late", "publish_held", "keep_alive_response", "keep_alive_empty_array", "more_notifications", "subscription_deleted"],
        }
    }
    fn runs(&self, tier: Tier) -> u64 {
        if tier == Tier::Thorough {
            30_000
        } else {
            1000
        }
    }
    fn gen(&self, seed: u64, run: u64, tier: Tier) -> Value {
        let mut rng = Rng::new(crate::framework::run_seed(seed, "C36", run));
        let mut steps = vec![json!({"op": "create_sub", "interval_ms": *rng.pick(&[50u64, 100, 200])})];
        let n = if tier == Tier::Thorough { rng.urange(3, 30) } else { rng.urange(3, 20) };
        let mut subs = 1;
        for _ in 0..n {
            match rng.below(20) {
                0 => {
                    if subs < 3 {
                        steps.push(json!({"op": "create_sub", "interval_ms": *rng.pick(&[50u64, 100, 200])}));
                        subs += 1;
                    }
                }
                1 => {
                    if subs > 1 {
                        steps.push(json!({"op": "delete_sub", "which": rng.below(3)}));
                        subs -= 1;
                    }
                }
                2..=4 => steps.push(json!({"op": "wait", "ms": *rng.pick(&[10u64, 50, 100, 300, 700])})),
                5..=10 => steps.push(json!({"op": "pub", "kind": "notify", "sub": rng.below(3), "delay_ms": *rng.pick(&[0u64, 1, 10, 40]), "more": rng.chance(0.2)})),
                11..=12 => steps.push(json!({"op": "pub", "kind": "keepalive", "empty_array": rng.chance(0.5), "sub": rng.below(3), "delay_ms": *rng.pick(&[0u64, 10, 100])})),
                13..=14 => steps.push(json!({"op": "pub", "kind": "fault", "status": *rng.pick(&["BadTooManyPublishRequests", "BadNoSubscription", "BadInternalError", "BadTimeout", "BadSessionIdInvalid"]), "delay_ms": *rng.pick(&[0u64, 10, 50])})),
                15..=16 => steps.push(json!({"op": "pub", "kind": "silent"})),
                17 => steps.push(json!({"op": "pub", "kind": "late", "sub": rng.below(3), "extra_ms": rng.urange(5, 200)})),
                _ => steps.push(json!({"op": "pub", "kind": "notify", "sub": rng.below(3), "delay_ms": rng.urange(50, 400), "more": false})),
            }
        }
        json!({
            "publish_timeout_ms": *rng.pick(&[150u64, 300, 600]),
            "max_inflight_publish": rng.urange(1, 3),
            "min_publish_interval_ms": *rng.pick(&[10u64, 20, 50]),
            "tseed": rng.next_u64() >> 12,
            "steps": steps
        })
    }
    fn exec(&self, plan: &Value, ctx: &mut Ctx) {
        let rt = l2::runtime(plan["tseed"].as_u64().unwrap_or(1));
        rt.block_on(run(plan, ctx));
        rawsrv::remove_connector();
    }
}

#[derive(Clone, Debug, PartialEq)]
enum Outcome {
    Pending,
    Answered { at: Instant, sub: u32, seq: u32, data: bool },
    Fault { at: Instant },
}

#[derive(Clone, Debug)]
struct PubReq {
    arrived: Instant,
    acks: Vec<(u32, u32)>,
    outcome: Outcome,
    kind: String,
}

#[derive(Clone, Debug)]
enum Send {
    Publish { k: usize, rid: u32, handle: u32, kind: String, sub: u32, more: bool, status: StatusCode },
}

fn status_by_name(s: &str) -> StatusCode {
    match s {
        "BadTooManyPublishRequests" => StatusCode::BadTooManyPublishRequests,
        "BadNoSubscription" => StatusCode::BadNoSubscription,
        "BadTimeout" => StatusCode::BadTimeout,
        "BadSessionIdInvalid" => StatusCode::BadSessionIdInvalid,
        _ => StatusCode::BadInternalError,
    }
}

async fn run(plan: &Value, ctx: &mut Ctx) {
    crate::hooks::follow_tokio();
    let acceptor = rawsrv::install_connector(1 << 22);
    let publish_timeout = Duration::from_millis(plan["publish_timeout_ms"].as_u64().unwrap_or(300));
    let pki = l2::scratch_dir().join("client-pki");
    let mut client = match ClientBuilder::new()
        .application_name("sim client")
        .application_uri("urn:sim:a")
        .product_uri("urn:sim:client")
        .pki_dir(pki)
        .create_sample_keypair(false)
        .trust_server_certs(true)
        .session_retry_limit(0)
        .session_retry_initial(Duration::from_millis(100))
        .keep_alive_interval(Duration::from_secs(3600))
        .request_timeout(Duration::from_secs(5))
        .publish_timeout(publish_timeout)
        .min_publish_interval(Duration::from_millis(plan["min_publish_interval_ms"].as_u64().unwrap_or(20)))
        .max_inflight_publish(plan["max_inflight_publish"].as_u64().unwrap_or(2) as usize)
        .session_timeout(3_600_000)
        .client()
    {
        Some(c) => c,
        None => panic!("harness error: client configuration is invalid"),
    };
    let (session, event_loop) = match client.new_session_from_info(super::c35_client::none_endpoint()) {
        Ok(x) => x,
        Err(e) => panic!("harness error: cannot create a session: {}", e),
    };
    let el_done = Arc::new(AtomicBool::new(false));
    let eld = el_done.clone();
    let el_task = tokio::spawn(async move {
        let _ = event_loop.run().await;
        eld.store(true, Ordering::SeqCst);
    });
    let Some(io) = acceptor.accept(Duration::from_secs(5)).await else {
        ctx.log("client-did-not-connect", "");
        el_task.abort();
        return;
    };
    let mut srv = RawServer::new(io, 91);
    if !srv.handshake(3_600_000).await {
        ctx.log("server-handshake-failed", "");
        el_task.abort();
        return;
    }
    let t0 = Instant::now();
    let ms = |t: Instant| (t - t0).as_micros() as f64 / 1000.0;
    let steps = plan["steps"].as_array().cloned().unwrap_or_default();
    // client actor
    let client_ops: Vec<Value> = steps.iter().filter(|s| s["op"] != "pub").cloned().collect();
    let client_done = Arc::new(AtomicBool::new(false));
    let cd = client_done.clone();
    let sess = session.clone();
    let deleted_count = Arc::new(std::sync::atomic::AtomicUsize::new(0));
    let dc = deleted_count.clone();
    let client_task = tokio::spawn(async move {
        if !sess.wait_for_connection().await {
            cd.store(true, Ordering::SeqCst);
            return;
        }
        let mut ids: Vec<u32> = Vec::new();
        if std::env::var("C36_DEBUG").is_ok() {
            eprintln!("client connected, {} ops", client_ops.len());
        }
        for op in client_ops {
            if std::env::var("C36_DEBUG").is_ok() {
                eprintln!("client op {}", op);
            }
            match op["op"].as_str().unwrap_or("") {
                "create_sub" => {
                    let interval = Duration::from_millis(op["interval_ms"].as_u64().unwrap_or(100));
                    if let Ok(id) = sess.create_subscription(interval, 30, 10, 0, 0, true, DataChangeCallback::new(|_, _| {})).await {
                        ids.push(id);
                    }
                }
                "delete_sub" => {
                    if ids.len() > 1 {
                        let i = (op["which"].as_u64().unwrap_or(0) as usize) % ids.len();
                        let id = ids.remove(i);
                        let _ = sess.delete_subscription(id).await;
                        dc.fetch_add(1, Ordering::SeqCst);
                    }
                }
                "wait" => tokio::time::sleep(Duration::from_millis(op["ms"].as_u64().unwrap_or(10))).await,
                _ => {}
            }
        }
        cd.store(true, Ordering::SeqCst);
    });

    // ---- scripted server ----
    let mut pubs: std::collections::VecDeque<Value> = steps.iter().filter(|s| s["op"] == "pub").cloned().collect();
    let mut sendq: BTreeMap<(Instant, u64), Send> = BTreeMap::new();
    let mut qn = 0u64;
    let mut reqs: Vec<PubReq> = Vec::new();
    let mut subs: BTreeMap<u32, u32> = BTreeMap::new(); // live subscription id -> next sequence number
    let mut next_sub_id = 1u32;
    let mut quiescence_from: Option<Instant> = None;
    let mut end: Option<Instant> = None;
    let quiescence = publish_timeout * 4 + Duration::from_millis(1500);
    // (time, sub, seq) of data notifications in responses that left in time
    loop {
        let now = Instant::now();
        if quiescence_from.is_none() && client_done.load(Ordering::SeqCst) && pubs.is_empty() {
            quiescence_from = Some(now);
            end = Some(now + quiescence);
        }
        if quiescence_from.is_none() && client_done.load(Ordering::SeqCst) && now > t0 + Duration::from_secs(120) {
            // scripted decisions left over but the client does not publish any more
            quiescence_from = Some(now);
            end = Some(now + quiescence);
        }
        if let Some(e) = end {
            if now >= e {
                break;
            }
        }
        if now > t0 + Duration::from_secs(600) {
            break;
        }
        let due = sendq.keys().next().cloned().filter(|k| k.0 <= now);
        if let Some(key) = due {
            let Send::Publish { k, rid, handle, kind, sub, more, status } = sendq.remove(&key).unwrap();
            if kind == "fault" {
                if srv.respond(rid, &rawsrv::fault(handle, status)).await {
                    reqs[k].outcome = Outcome::Fault { at: Instant::now() };
                }
                continue;
            }
            // pick a live subscription
            let live: Vec<u32> = subs.keys().cloned().collect();
            if live.is_empty() {
                if srv.respond(rid, &rawsrv::fault(handle, StatusCode::BadNoSubscription)).await {
                    reqs[k].outcome = Outcome::Fault { at: Instant::now() };
                }
                continue;
            }
            let sid = live[(sub as usize) % live.len()];
            let seq = *subs.get(&sid).unwrap();
            let data = kind != "keepalive" && kind != "keepalive_empty";
            let empty_array = kind == "keepalive_empty";
            let notification_data = if data {
                let dcn = DataChangeNotification {
                    monitored_items: Some(vec![MonitoredItemNotification {
                        client_handle: 1,
                        value: DataValue::value_only(Variant::UInt32(seq)),
                    }]),
                    diagnostic_infos: None,
                };
                Some(vec![ExtensionObject::from_encodable(ObjectId::DataChangeNotification_Encoding_DefaultBinary, &dcn)])
            } else if empty_array {
                // the other legal encoding of "no notifications": an array of length 0 instead of a null array
                ctx.fault("keep_alive_empty_array");
                Some(Vec::new())
            } else {
                None
            };
            if data {
                subs.insert(sid, seq + 1);
            }
            let acks = reqs[k].acks.len();
            let resp: SupportedMessage = PublishResponse {
                response_header: rawsrv::good_header(handle),
                subscription_id: sid,
                available_sequence_numbers: None,
                more_notifications: more,
                notification_message: NotificationMessage {
                    sequence_number: seq,
                    publish_time: DateTime::from(crate::hooks::utc_now()),
                    notification_data,
                },
                results: if acks > 0 { Some(vec![StatusCode::Good; acks]) } else { None },
                diagnostic_infos: None,
            }
            .into();
            if srv.respond(rid, &resp).await {
                reqs[k].outcome = Outcome::Answered { at: Instant::now(), sub: sid, seq, data };
            }
            continue;
        }
        let mut wake = end.unwrap_or(now + Duration::from_millis(20)).min(now + Duration::from_millis(20));
        if let Some(k) = sendq.keys().next() {
            wake = wake.min(k.0);
        }
        let wait = if wake > now { wake - now } else { Duration::from_micros(0) };
        match srv.recv(wait).await {
            SrvRecv::Msg { request_id, msg, .. } => {
                let now = Instant::now();
                if std::env::var("C36_DEBUG").is_ok() {
                    eprintln!("{:.1} srv got {}", ms(now), l2::msg_kind(&msg));
                }
                match msg {
                    SupportedMessage::PublishRequest(r) => {
                        let acks: Vec<(u32, u32)> = r.subscription_acknowledgements.clone().unwrap_or_default().iter().map(|a| (a.subscription_id, a.sequence_number)).collect();
                        let k = reqs.len();
                        let handle = r.request_header.request_handle;
                        let b = if quiescence_from.is_some() { None } else { pubs.pop_front() };
                        let (kind, at, sub, more, status) = match &b {
                            None => ("keepalive".to_string(), now + Duration::from_millis(10), 0u32, false, StatusCode::Good),
                            Some(b) => {
                                let mut kind = b["kind"].as_str().unwrap_or("notify").to_string();
                                if kind == "keepalive" && b["empty_array"].as_bool().unwrap_or(false) {
                                    kind = "keepalive_empty".to_string();
                                }
                                let delay = Duration::from_millis(b["delay_ms"].as_u64().unwrap_or(0));
                                let at = match kind.as_str() {
                                    "late" => now + publish_timeout + Duration::from_millis(b["extra_ms"].as_u64().unwrap_or(50)),
                                    _ => now + delay,
                                };
                                (kind, at, b["sub"].as_u64().unwrap_or(0) as u32, b["more"].as_bool().unwrap_or(false), status_by_name(b["status"].as_str().unwrap_or("")))
                            }
                        };
                        reqs.push(PubReq { arrived: now, acks, outcome: Outcome::Pending, kind: kind.clone() });
                        match kind.as_str() {
                            "silent" => ctx.fault("publish_silence"),
                            "late" => ctx.fault("publish_late"),
                            "fault" => ctx.fault("publish_fault"),
                            "keepalive" | "keepalive_empty" if b.is_some() => ctx.fault("keep_alive_response"),
                            _ => {}
                        }
                        if more {
                            ctx.fault("more_notifications");
                        }
                        if at > now + Duration::from_millis(45) && kind == "notify" {
                            ctx.fault("publish_held");
                        }
                        if kind != "silent" {
                            qn += 1;
                            sendq.insert((at, qn), Send::Publish { k, rid: request_id, handle, kind, sub, more, status });
                        }
                    }
                    SupportedMessage::CreateSessionRequest(r) => {
                        let resp: SupportedMessage = CreateSessionResponse {
                            response_header: rawsrv::good_header(r.request_header.request_handle),
                            session_id: NodeId::new(1, 4001u32),
                            authentication_token: NodeId::new(0, ByteString::from(vec![9u8; 16])),
                            revised_session_timeout: r.requested_session_timeout,
                            server_nonce: ByteString::from(vec![3u8; 32]),
                            server_certificate: ByteString::null(),
                            server_endpoints: None,
                            server_software_certificates: None,
                            server_signature: SignatureData::null(),
                            max_request_message_size: 0,
                        }
                        .into();
                        srv.respond(request_id, &resp).await;
                    }
                    SupportedMessage::ActivateSessionRequest(r) => {
                        let resp: SupportedMessage = ActivateSessionResponse {
                            response_header: rawsrv::good_header(r.request_header.request_handle),
                            server_nonce: ByteString::from(vec![4u8; 32]),
                            results: None,
                            diagnostic_infos: None,
                        }
                        .into();
                        srv.respond(request_id, &resp).await;
                    }
                    SupportedMessage::CreateSubscriptionRequest(r) => {
                        let id = next_sub_id;
                        next_sub_id += 1;
                        subs.insert(id, 1);
                        let resp: SupportedMessage = CreateSubscriptionResponse {
                            response_header: rawsrv::good_header(r.request_header.request_handle),
                            subscription_id: id,
                            // the client states its request in seconds (observation, see DESIGN.md); answer in milliseconds
                            revised_publishing_interval: r.requested_publishing_interval * 1000.0,
                            revised_lifetime_count: r.requested_lifetime_count,
                            revised_max_keep_alive_count: r.requested_max_keep_alive_count,
                        }
                        .into();
                        srv.respond(request_id, &resp).await;
                    }
                    SupportedMessage::DeleteSubscriptionsRequest(r) => {
                        let ids = r.subscription_ids.clone().unwrap_or_default();
                        for id in ids.iter() {
                            subs.remove(id);
                        }
                        ctx.fault("subscription_deleted");
                        let resp: SupportedMessage = DeleteSubscriptionsResponse {
                            response_header: rawsrv::good_header(r.request_header.request_handle),
                            results: Some(vec![StatusCode::Good; ids.len()]),
                            diagnostic_infos: None,
                        }
                        .into();
                        srv.respond(request_id, &resp).await;
                    }
                    other => {
                        let handle = rawsrv::request_header_of(&other).map(|h| h.request_handle).unwrap_or(0);
                        srv.respond(request_id, &rawsrv::fault(handle, StatusCode::BadServiceUnsupported)).await;
                    }
                }
            }
            SrvRecv::Timeout => {}
            other => {
                ctx.log("connection-ended", &format!("{:?}", other).chars().take(80).collect::<String>());
                break;
            }
        }
    }
    let _ = deleted_count;
    // ---- oracle over the history ----
    let margin = Duration::from_millis(3);
    // success / failure from the client's point of view
    let verdict = |r: &PubReq| -> &'static str {
        let deadline = r.arrived + publish_timeout;
        match &r.outcome {
            Outcome::Answered { at, .. } if *at + margin <= deadline => "ok",
            Outcome::Answered { at, .. } if *at >= deadline + margin => "failed",
            Outcome::Answered { .. } => "either",
            Outcome::Fault { at } if *at + margin <= deadline => "failed",
            Outcome::Fault { at } if *at >= deadline + margin => "failed",
            Outcome::Fault { .. } => "failed",
            Outcome::Pending => {
                if Instant::now() >= deadline + margin {
                    "failed"
                } else {
                    "open"
                }
            }
        }
    };
    let live_on_client = session.subscription_state.lock().subscription_ids().map(|v| v.len()).unwrap_or(0);
    let quiesced = quiescence_from.is_some() && reqs.iter().filter(|r| quiescence_from.map(|q| r.arrived >= q).unwrap_or(false) && verdict(r) == "ok").count() >= 2;
    let failures = reqs.iter().filter(|r| verdict(r) == "failed").count();
    if failures > 0 {
        ctx.nontrivial = true;
    }
    // (2) never again after a successful send; never twice in one request
    let mut carried: BTreeMap<(u32, u32), Vec<usize>> = BTreeMap::new();
    for (k, r) in reqs.iter().enumerate() {
        let mut seen = BTreeSet::new();
        for a in r.acks.iter() {
            if !seen.insert(*a) {
                ctx.violate("C36", "acknowledged-twice-in-one-request", "", format!("publish request #{} carries the acknowledgement (subscription {}, sequence number {}) twice", k, a.0, a.1));
            }
            carried.entry(*a).or_default().push(k);
        }
    }
    for (a, ks) in carried.iter() {
        for w in ks.windows(2) {
            let first = &reqs[w[0]];
            if verdict(first) == "ok" {
                // what had the client received under this number?
                let keepalive_first = reqs.iter().any(|r| matches!(r.outcome, Outcome::Answered { sub, seq, data: false, at } if sub == a.0 && seq == a.1 && at <= first.arrived));
                let data_before_first = reqs.iter().any(|r| matches!(r.outcome, Outcome::Answered { sub, seq, data: true, at } if sub == a.0 && seq == a.1 && at <= first.arrived));
                ctx.violate(
                    "C36",
                    "acknowledged-again-after-successful-send",
                    if keepalive_first && !data_before_first { "keep-alive-number-acknowledged" } else { "" },
                    format!(
                        "acknowledgement (subscription {}, sequence number {}) was carried by publish request #{} (arrived {:.1} ms, answered successfully) and again by request #{} (arrived {:.1} ms){}",
                        a.0,
                        a.1,
                        w[0],
                        ms(first.arrived),
                        w[1],
                        ms(reqs[w[1]].arrived),
                        if keepalive_first && !data_before_first { "; the first acknowledgement answered a keep-alive message, which only announces the number of the next notification" } else { "" }
                    ),
                );
            }
        }
    }
    if quiesced && live_on_client > 0 && !el_done.load(Ordering::SeqCst) {
        // (1) every data notification delivered in time is acknowledged later
        for (k, r) in reqs.iter().enumerate() {
            if let Outcome::Answered { at, sub, seq, data: true } = r.outcome {
                if verdict(r) != "ok" {
                    continue;
                }
                let acked = reqs.iter().any(|q| q.arrived >= at && q.acks.contains(&(sub, seq)));
                if !acked {
                    ctx.violate("C36", "notification-never-acknowledged", "", format!("notification (subscription {}, sequence number {}) delivered at {:.1} ms in the response to publish request #{} was not acknowledged by any of the {} later publish requests", sub, seq, ms(at), k, reqs.iter().filter(|q| q.arrived >= at).count()));
                }
            }
        }
        // (3) acknowledgements of a failed request are carried again
        for (k, r) in reqs.iter().enumerate() {
            if verdict(r) != "failed" {
                continue;
            }
            for a in r.acks.iter() {
                let again = reqs.iter().enumerate().any(|(j, q)| j > k && q.acks.contains(a));
                if !again {
                    ctx.violate("C36", "acknowledgement-of-failed-request-lost", &r.kind, format!("publish request #{} ({}) failed and carried the acknowledgement (subscription {}, sequence number {}); no later publish request carried it again", k, r.kind, a.0, a.1));
                }
            }
        }
    } else {
        ctx.probe("liveness_clauses_skipped");
    }
    let concurrent = reqs.iter().enumerate().any(|(k, r)| reqs.iter().skip(k + 1).any(|q| q.arrived < match r.outcome { Outcome::Answered { at, .. } | Outcome::Fault { at } => at, Outcome::Pending => r.arrived + publish_timeout }));
    if concurrent {
        ctx.nontrivial = true;
        ctx.probe("concurrent_publish_requests");
    }
    for r in reqs.iter().take(60) {
        ctx.log(&format!("{}>{}:{}", r.kind, verdict(r), r.acks.len().min(3)), "");
    }
    ctx.add("publish_requests", reqs.len() as u64);
    ctx.add("acknowledgements", reqs.iter().map(|r| r.acks.len() as u64).sum());
    client_task.abort();
    el_task.abort();
    ctx.advance((Instant::now() - t0).as_micros() as u64);
}
