//! C10 Memory held for an incomplete incoming message is bounded.
//!
//! L2: after HEL/OPN a raw client sends a history of intermediate chunks (valid and invalid, mixed
//! with abort chunks) far beyond the server's chunk-count and message-size limits, and frames whose
//! declared size ranges up to u32::MAX offered header-first. The server's pending-chunk buffer is
//! read through a guarded accessor after every delivered chunk.

use crate::ctx::Ctx;
use crate::framework::{Info, Scenario, Tier};
use crate::l2::{self, Conn, Recv, ServerSpec};
use crate::rng::Rng;
use opcua::core::comms::message_chunk::{MessageChunk, MessageChunkType, MessageIsFinalType};
use opcua::types::*;
use serde_json::{json, Value};
use std::time::Duration;

pub struct C10;

impl Scenario for C10 {
    fn id(&self) -> &'static str {
        "C10"
    }
    fn info(&self) -> Info {
        Info {
            level: "exploration",
            exhaustive: false,
            layer: "L2 (real server reader loop, raw client)",
            rule: "run = server limits (max chunk count 2..12, max message size 20..200 kB) and a history of 1-60 chunks on one connection after HEL/OPN: intermediate chunks of assorted sizes with consecutive / repeated / arbitrary sequence numbers, abort chunks, final chunks; or a frame header declaring a size from the limit-1 .. u32::MAX followed by silence. After every chunk the pending buffer (count, bytes) is read. Oracle: pending chunks <= max chunk count and pending bytes <= max message size at all times; the chunk that would exceed a limit ends the connection; an oversized declared frame ends the connection within 200 virtual ms instead of being awaited. non-trivial = the history tried to exceed a limit; distinct = op/outcome hash.",
            real: vec!["server TcpTransport reader loop / process_chunk / pending_chunks", "TcpCodec (FramedRead) with the server's decoding options", "MessageChunk::decode"],
            stubbed: vec!["TCP socket"],
            assumptions: vec!["security policy None"],
            fault_kinds: vec!["exceed_chunk_count", "exceed_message_size", "oversized_frame_header", "abort_chunk", "final_chunk_exceeds_limit"],
        }
    }
    fn runs(&self, tier: Tier) -> u64 {
        if tier == Tier::Thorough {
            30_000
        } else {
            2000
        }
    }
    fn gen(&self, seed: u64, run: u64, tier: Tier) -> Value {
        let mut rng = Rng::new(crate::framework::run_seed(seed, "C10", run));
        let max_chunks = rng.urange(2, 12);
        let max_msg = *rng.pick(&[20_000usize, 50_000, 100_000, 200_000]);
        let mut steps = Vec::new();
        if rng.chance(0.25) {
            // oversized frame offered header-first
            let declared: u64 = match rng.below(6) {
                0 => max_msg as u64 + 1,
                1 => max_msg as u64 + 1000,
                2 => 16 * 1024 * 1024,
                3 => u32::MAX as u64,
                4 => i32::MAX as u64,
                _ => max_msg as u64 - 1, // legitimate: must NOT be refused
            };
            steps.push(json!({"op": "header", "declared": declared, "extra": rng.urange(1, 64), "kind": *rng.pick(&["MSGF", "MSGC", "OPNF", "HELF", "ERRF", "ACKF", "XYZF"])}));
        } else if rng.chance(0.2) {
            // exactly at the limit, then the final chunk that goes over it
            if rng.chance(0.5) {
                for _ in 0..max_chunks {
                    steps.push(json!({"op": "chunk", "fin": "C", "size": 100, "seq": "next"}));
                }
            } else {
                let per = 8000usize;
                for _ in 0..((max_msg / (per + 24)).min(max_chunks.saturating_sub(1))) {
                    steps.push(json!({"op": "chunk", "fin": "C", "size": per, "seq": "next"}));
                }
            }
            steps.push(json!({"op": "chunk", "fin": "F", "size": *rng.pick(&[10usize, 8000, 60_000]), "seq": "next"}));
        } else if rng.chance(0.15) {
            // a well-formed request that needs one chunk more than the limit allows
            steps.push(json!({"op": "valid_over_count", "rseed": rng.next_u64() >> 12}));
        } else {
            let n = if tier == Tier::Thorough { rng.urange(1, 60) } else { rng.urange(1, 30) };
            for _ in 0..n {
                match rng.below(12) {
                    0 => steps.push(json!({"op": "chunk", "fin": "A", "size": 20, "seq": "next"})),
                    1 => steps.push(json!({"op": "chunk", "fin": "F", "size": rng.urange(10, 2000), "seq": "next"})),
                    2 => steps.push(json!({"op": "chunk", "fin": "C", "size": rng.urange(10, 8000), "seq": *rng.pick(&["same", "random"])})),
                    _ => steps.push(json!({"op": "chunk", "fin": "C", "size": *rng.pick(&[10usize, 100, 1000, 8000, 8100, 30_000, 60_000]), "seq": "next"})),
                }
            }
        }
        json!({"max_chunks": max_chunks, "max_msg": max_msg, "tseed": rng.next_u64() >> 12, "steps": steps})
    }
    fn exec(&self, plan: &Value, ctx: &mut Ctx) {
        let rt = l2::runtime(plan["tseed"].as_u64().unwrap_or(1));
        rt.block_on(run(plan, ctx));
    }
    fn panic_property(&self) -> &'static str {
        "C09"
    }
}

async fn run(plan: &Value, ctx: &mut Ctx) {
    crate::hooks::follow_tokio();
    let max_chunks = plan["max_chunks"].as_u64().unwrap_or(5) as usize;
    let max_msg = plan["max_msg"].as_u64().unwrap_or(50_000) as usize;
    let mut spec = ServerSpec::default();
    spec.max_chunk_count = max_chunks;
    spec.max_message_size = max_msg;
    let server = l2::build_server(&spec);
    let mut c = Conn::connect(&server, 100.0, 1 << 24, 58000);
    if !matches!(c.hello().await, Recv::Ack(_)) {
        return;
    }
    c.prepare_channel(opcua::crypto::SecurityPolicy::None, MessageSecurityMode::None, 2048);
    if !matches!(c.open(false, 3_600_000).await, Recv::Msg(_, _)) {
        return;
    }
    let steps = plan["steps"].as_array().cloned().unwrap_or_default();
    let mut seq = c.next_seq;
    // model of what a bounded receiver may hold
    let mut model_count = 0usize;
    let mut model_bytes = 0usize;
    for (i, s) in steps.iter().enumerate() {
        ctx.step(i);
        match s["op"].as_str().unwrap_or("") {
            "header" => {
                let declared = s["declared"].as_u64().unwrap_or(0) as u32;
                let extra = s["extra"].as_u64().unwrap_or(1) as usize;
                let kind = s["kind"].as_str().unwrap_or("MSGF").as_bytes().to_vec();
                let mut bytes = Vec::new();
                bytes.extend_from_slice(&kind[0..4]);
                bytes.extend_from_slice(&declared.to_le_bytes());
                bytes.extend(std::iter::repeat(0u8).take(extra));
                let oversized = declared as usize > max_msg;
                if oversized {
                    ctx.fault("oversized_frame_header");
                }
                c.send_bytes(&bytes).await;
                // give the server plenty of (virtual) time but stay below the hello / session time-outs
                let got = c.drain(Duration::from_millis(200)).await;
                let closed = !c.is_open() || got.iter().any(|r| matches!(r, Recv::Eof | Recv::Err(_)));
                ctx.log(&format!("header({})>{}", if oversized { "oversized" } else { "legal" }, if closed { "closed" } else { "waiting" }), &format!("{}", declared));
                if oversized && !closed {
                    ctx.violate(
                        "C10",
                        "oversized-frame-awaited",
                        "",
                        format!("a frame header declaring {} bytes (maximum message size {}) was not rejected: the server keeps waiting to accumulate it", declared, max_msg),
                    );
                }
                if !oversized && closed {
                    ctx.violate("C10", "legal-frame-refused", "", format!("a frame header declaring {} bytes (maximum message size {}) closed the connection", declared, max_msg));
                }
                break;
            }
            "valid_over_count" => {
                let per_chunk = 8196 - 24 - 4; // policy None: body bytes per 8196-byte chunk
                let target = max_chunks * per_chunk + 200;
                if target + 24 * (max_chunks + 1) > max_msg {
                    ctx.log("valid_over_count>skipped", "");
                    break;
                }
                ctx.fault("final_chunk_exceeds_limit");
                let mut rng = Rng::new(s["rseed"].as_u64().unwrap_or(1));
                let req: opcua::core::supported_message::SupportedMessage = crate::wire::sized_read_request(1, target, &mut rng).into();
                c.chunk_size = 8196;
                let Ok((id, chunks)) = c.encode_message(&req) else { break };
                let n = chunks.len();
                for ch in chunks.iter() {
                    if !c.send_bytes(ch).await {
                        break;
                    }
                }
                let r = c.recv_for(id, Duration::from_millis(200)).await;
                let answered = matches!(r, Recv::Msg(_, _));
                ctx.log(&format!("valid_over_count({} chunks)>{}", n, l2::recv_kind(&r)), "");
                if n > max_chunks && answered {
                    ctx.violate("C10", "limit-exceeding-final-chunk-accepted", "", format!("a well-formed request of {} chunks was buffered, decoded and answered ({}) although the negotiated maximum chunk count is {}", n, l2::recv_kind(&r), max_chunks));
                }
                break;
            }
            "chunk" => {
                let fin = s["fin"].as_str().unwrap_or("C");
                let size = s["size"].as_u64().unwrap_or(10) as usize;
                let this_seq = match s["seq"].as_str().unwrap_or("next") {
                    "same" => seq.saturating_sub(1),
                    "random" => 1_000_000 + i as u32 * 17,
                    _ => {
                        let v = seq;
                        seq += 1;
                        v
                    }
                };
                let is_final = match fin {
                    "F" => MessageIsFinalType::Final,
                    "A" => MessageIsFinalType::FinalError,
                    _ => MessageIsFinalType::Intermediate,
                };
                let body = vec![0x41u8; size];
                let chunk = match MessageChunk::new(this_seq, 4242, MessageChunkType::Message, is_final, &c.chan, &body) {
                    Ok(ch) => ch,
                    Err(_) => continue,
                };
                let wire_len = chunk.data.len();
                if fin == "C" && model_count + 1 > max_chunks {
                    ctx.fault("exceed_chunk_count");
                }
                if fin == "C" && model_bytes + wire_len > max_msg {
                    ctx.fault("exceed_message_size");
                }
                if fin == "A" {
                    ctx.fault("abort_chunk");
                }
                // the final chunk counts too: with it the message would exceed a limit
                let final_exceeds = fin == "F" && (model_count + 1 > max_chunks || model_bytes + wire_len > max_msg);
                if final_exceeds {
                    ctx.fault("final_chunk_exceeds_limit");
                }
                if !c.send_bytes(&chunk.data).await {
                    break;
                }
                // let the reader task process it
                tokio::time::sleep(Duration::from_millis(1)).await;
                let got = c.drain(Duration::from_millis(0)).await;
                let closed = !c.is_open() || got.iter().any(|r| matches!(r, Recv::Eof | Recv::Err(_)));
                let (count, bytes) = {
                    let t = c.transport.read();
                    t.verif_pending_chunks()
                };
                ctx.log(&format!("chunk({})>{}", fin, if closed { "closed" } else { "open" }), &format!("pending={}c", count.min(99)));
                if count > max_chunks {
                    ctx.violate("C10", "pending-chunks-exceed-limit", "", format!("{} chunks are buffered for one incomplete message, the negotiated maximum chunk count is {}", count, max_chunks));
                    break;
                }
                if bytes > max_msg {
                    ctx.violate("C10", "pending-bytes-exceed-limit", "", format!("{} bytes are buffered for one incomplete message, the maximum message size is {}", bytes, max_msg));
                    break;
                }
                if final_exceeds && !closed {
                    ctx.violate("C10", "limit-exceeding-final-chunk-accepted", "", format!("a final chunk that brings the message to {} chunks / {} bytes (limits {} chunks / {} bytes) was accepted: no error, connection still open", model_count + 1, model_bytes + wire_len, max_chunks, max_msg));
                    break;
                }
                if closed {
                    ctx.probe("connection_closed_by_server");
                    break;
                }
                match fin {
                    "C" => {
                        model_count += 1;
                        model_bytes += wire_len;
                    }
                    _ => {
                        model_count = 0;
                        model_bytes = 0;
                    }
                }
            }
            _ => {}
        }
    }
    ctx.advance(1000 * steps.len() as u64);
}
