//! C18 Certificate trust verdicts follow the configured trust store.
//!
//! L1 with a "disk node": a scratch PKI directory per run. Actors: the validator (real
//! `CertificateStore::validate_or_reject_application_instance_cert`), an administrator who moves
//! files between `rejected/` and `trusted/`, the simulated wall clock, and a disk fault injector
//! (truncate / flip / zero / replace a stored certificate, remove a directory or replace it by a
//! regular file). Oracle: decision-table model of the statement.

use crate::ctx::Ctx;
use crate::framework::{Info, Scenario, Tier};
use crate::rng::Rng;
use crate::wire;
use opcua::crypto::{CertificateStore, SecurityPolicy, X509};
use opcua::types::StatusCode;
use serde_json::{json, Value};
use std::path::{Path, PathBuf};

pub struct C18;

const NCERTS: usize = 8;
const HOST_OK: &str = "machine.example";
const URI_OK: &str = "urn:sim:client";

#[derive(Clone)]
struct CertSpec {
    bits: u32,
    key: &'static str,
    /// validity relative to the simulation epoch, in days
    from_days: i64,
    to_days: i64,
    host: &'static str,
    uri: &'static str,
}

fn cert_specs() -> Vec<CertSpec> {
    vec![
        CertSpec { bits: 2048, key: "a", from_days: -100, to_days: 1000, host: HOST_OK, uri: URI_OK },
        CertSpec { bits: 2048, key: "c", from_days: -100, to_days: -10, host: HOST_OK, uri: URI_OK }, // expired
        CertSpec { bits: 2048, key: "b", from_days: 10, to_days: 1000, host: HOST_OK, uri: URI_OK }, // not yet valid
        CertSpec { bits: 1024, key: "a", from_days: -100, to_days: 1000, host: HOST_OK, uri: URI_OK }, // short key
        CertSpec { bits: 2048, key: "a", from_days: -100, to_days: 1000, host: "other.example", uri: "urn:sim:other" }, // wrong host / uri (same key as 0)
        CertSpec { bits: 4096, key: "a", from_days: -100, to_days: 1000, host: HOST_OK, uri: URI_OK },
        CertSpec { bits: 2048, key: "b", from_days: -100, to_days: 1000, host: HOST_OK, uri: "urn:sim:other" }, // right host, wrong uri
        CertSpec { bits: 2048, key: "c", from_days: -100, to_days: 1000, host: "other.example", uri: URI_OK }, // wrong host, right uri
    ]
}

fn epoch_s() -> i64 {
    crate::hooks::EPOCH_US / 1_000_000
}

fn build_cert(i: usize) -> X509 {
    let s = &cert_specs()[i % NCERTS];
    let id = wire::identity(s.bits, s.key);
    wire::make_cert(&id.pem, &format!("cert{}", i % NCERTS), s.uri, &[s.host, "10.0.0.1"], epoch_s() + s.from_days * 86400, epoch_s() + s.to_days * 86400, 5000 + i as u32)
}

fn valid_key_length(policy: SecurityPolicy, bits: u32) -> bool {
    match policy {
        SecurityPolicy::Basic128Rsa15 | SecurityPolicy::Basic256 => (1024..=2048).contains(&bits),
        SecurityPolicy::Basic256Sha256 | SecurityPolicy::Aes128Sha256RsaOaep | SecurityPolicy::Aes256Sha256RsaPss => (2048..=4096).contains(&bits),
        _ => false,
    }
}

struct Disk {
    root: PathBuf,
}

impl Disk {
    fn trusted(&self) -> PathBuf {
        self.root.join("trusted")
    }
    fn rejected(&self) -> PathBuf {
        self.root.join("rejected")
    }
    fn read(&self, dir: &Path, name: &str) -> Option<Vec<u8>> {
        std::fs::read(dir.join(name)).ok()
    }
}

impl Scenario for C18 {
    fn id(&self) -> &'static str {
        "C18"
    }
    fn info(&self) -> Info {
        Info {
            level: "fault_enumeration",
            exhaustive: false,
            layer: "L1 + disk node (scratch PKI directory per run) + simulated wall clock",
            rule: "enumerated decision table: 8 certificates (valid / expired / not yet valid / 1024-bit / wrong host+URI / 4096-bit / wrong URI only / wrong host only) x store state {absent, trusted identical, trusted different bytes, rejected, both} x trust-unknown x skip-verify x check-time x 3 policies x host/URI given or not x 2 entry points (9216 combinations, one validation each), then seeded histories of 2-12 steps mixing validations with administrator moves, disk faults on stored copies and directories, and clock jumps across the validity window. Oracle: Good => not in rejected/, a byte-identical (DER-equal) copy in trusted/, key length valid for the policy, and unless skip-verify: inside the validity at the simulated time (when check-time), host and URI match; unknown and untrusted => present in rejected/ afterwards; accepted => absent from rejected/. non-trivial = a disk fault, clock jump or administrator move preceded the validation, or the table row is not the plain accept row; distinct = (configuration, verdict class) hash.",
            real: vec!["CertificateStore::validate_or_reject_application_instance_cert / validate_application_instance_cert", "ensure_cert_and_file_are_the_same, store_rejected_cert, store_trusted_cert, read_cert", "X509 time / host name / application URI / key length checks", "std::fs on a real scratch directory"],
            stubbed: vec!["wall clock (verif::clock seam, fixed mode)"],
            assumptions: vec!["runs as root, so permission-bit faults are not available and not claimed"],
            fault_kinds: vec!["truncate_file", "flip_byte", "zero_file", "replace_with_other_cert", "remove_directory", "directory_replaced_by_file", "clock_jump", "admin_move"],
        }
    }
    fn runs(&self, tier: Tier) -> u64 {
        9216 + if tier == Tier::Thorough { 40_000 } else { 1500 }
    }
    fn gen(&self, seed: u64, run: u64, tier: Tier) -> Value {
        if run < 9216 {
            let mut r = run;
            let cert = r % 8;
            r /= 8;
            let state = r % 6; // 0 absent, 1 trusted identical, 2 trusted different bytes, 3 rejected, 4 both, 5 trusted + rejected different
            r /= 6;
            let trust_unknown = r % 2 == 1;
            r /= 2;
            let skip_verify = r % 2 == 1;
            r /= 2;
            let check_time = r % 2 == 1;
            r /= 2;
            let policy = ["Basic128Rsa15", "Basic256Sha256", "Aes256-Sha256-RsaPss"][(r % 3) as usize];
            r /= 3;
            let ident = r % 4; // host / uri given?
            r /= 4;
            let inner = r % 2 == 1; // which entry point
            let mut steps = vec![json!({"op": "flags", "trust_unknown": trust_unknown, "skip_verify": skip_verify, "check_time": check_time})];
            match state {
                1 => steps.push(json!({"op": "admin_put", "cert": cert, "dir": "trusted"})),
                2 => steps.push(json!({"op": "admin_put_as", "cert": (cert + 1) % 8, "name_of": cert, "dir": "trusted"})),
                3 => steps.push(json!({"op": "admin_put", "cert": cert, "dir": "rejected"})),
                4 => {
                    steps.push(json!({"op": "admin_put", "cert": cert, "dir": "trusted"}));
                    steps.push(json!({"op": "admin_put", "cert": cert, "dir": "rejected"}));
                }
                5 => {
                    steps.push(json!({"op": "admin_put", "cert": cert, "dir": "trusted"}));
                    steps.push(json!({"op": "admin_put_as", "cert": (cert + 2) % 8, "name_of": cert, "dir": "rejected"}));
                }
                _ => {}
            }
            steps.push(json!({"op": "validate", "cert": cert, "policy": policy, "host": ident & 1 == 1, "uri": ident & 2 == 2, "inner": inner}));
            return json!({"steps": steps});
        }
        let mut rng = Rng::new(crate::framework::run_seed(seed, "C18", run));
        let n = if tier == Tier::Thorough { rng.urange(2, 12) } else { rng.urange(2, 9) };
        let mut steps = vec![json!({"op": "flags", "trust_unknown": rng.chance(0.4), "skip_verify": rng.chance(0.3), "check_time": rng.chance(0.7)})];
        // most histories start from a populated trusted store so that disk faults have a target
        let mut present: Vec<u64> = Vec::new();
        if rng.chance(0.75) {
            for _ in 0..rng.urange(1, 3) {
                let c = rng.below(8);
                steps.push(json!({"op": "admin_put", "cert": c, "dir": "trusted"}));
                present.push(c);
            }
        }
        for _ in 0..n {
            let cert = if !present.is_empty() && rng.chance(0.7) { *rng.pick(&present) } else { rng.below(8) };
            match rng.below(14) {
                0..=5 => steps.push(json!({"op": "validate", "cert": cert, "policy": *rng.pick(&["Basic128Rsa15", "Basic256", "Basic256Sha256", "Aes128-Sha256-RsaOaep", "Aes256-Sha256-RsaPss"]), "host": rng.chance(0.5), "uri": rng.chance(0.5), "wrong_ident": rng.chance(0.15), "uri_case": rng.chance(0.15), "inner": rng.chance(0.3)})),
                6 => steps.push(json!({"op": "admin_move", "cert": cert})),
                7 => steps.push(json!({"op": "admin_put", "cert": cert, "dir": *rng.pick(&["trusted", "rejected"])})),
                8 => steps.push(json!({"op": "admin_delete", "cert": cert, "dir": *rng.pick(&["trusted", "rejected"])})),
                9..=10 => steps.push(json!({"op": "disk_fault", "cert": cert, "dir": *rng.pick(&["trusted", "trusted", "rejected"]), "kind": *rng.pick(&["truncate", "flip", "zero", "replace"]), "at": rng.below(900)})),
                11 => steps.push(json!({"op": "dir_fault", "dir": *rng.pick(&["trusted", "rejected"]), "kind": *rng.pick(&["remove", "file", "restore"])})),
                12 => steps.push(json!({"op": "clock", "days": *rng.pick(&[-200i64, -50, -5, 0, 5, 15, 999, 1001, 4000])})),
                _ => steps.push(json!({"op": "flags", "trust_unknown": rng.chance(0.4), "skip_verify": rng.chance(0.3), "check_time": rng.chance(0.7)})),
            }
        }
        json!({"steps": steps})
    }

    fn exec(&self, plan: &Value, ctx: &mut Ctx) {
        let root = crate::l2::scratch_dir().join(format!("c18-{}", ctx.run));
        let _ = std::fs::remove_dir_all(&root);
        let _ = std::fs::create_dir_all(root.join("trusted"));
        let _ = std::fs::create_dir_all(root.join("rejected"));
        let disk = Disk { root: root.clone() };
        let mut store = CertificateStore::new(&root);
        let (mut trust_unknown, mut skip_verify, mut check_time) = (false, false, true);
        let mut now_days: i64 = 0;
        crate::hooks::set_wall_us(crate::hooks::EPOCH_US);
        let certs: Vec<X509> = (0..NCERTS).map(build_cert).collect();
        let names: Vec<String> = certs.iter().map(CertificateStore::cert_file_name).collect();
        let ders: Vec<Vec<u8>> = certs.iter().map(|c| c.to_der().unwrap_or_default()).collect();
        let specs = cert_specs();
        let steps = plan["steps"].as_array().cloned().unwrap_or_default();
        let mut disturbed = false;
        for (i, s) in steps.iter().enumerate() {
            ctx.step(i);
            let ci = (s["cert"].as_u64().unwrap_or(0) as usize) % NCERTS;
            let dir = if s["dir"] == "rejected" { disk.rejected() } else { disk.trusted() };
            match s["op"].as_str().unwrap_or("") {
                "flags" => {
                    trust_unknown = s["trust_unknown"].as_bool().unwrap_or(false);
                    skip_verify = s["skip_verify"].as_bool().unwrap_or(false);
                    check_time = s["check_time"].as_bool().unwrap_or(true);
                    store.set_trust_unknown_certs(trust_unknown);
                    store.set_skip_verify_certs(skip_verify);
                    store.set_check_time(check_time);
                }
                "admin_put" => {
                    let _ = std::fs::write(dir.join(&names[ci]), &ders[ci]);
                    ctx.fault("admin_move");
                    disturbed = true;
                }
                "admin_put_as" => {
                    // another certificate's bytes under this certificate's file name
                    let ni = (s["name_of"].as_u64().unwrap_or(0) as usize) % NCERTS;
                    let _ = std::fs::write(dir.join(&names[ni]), &ders[ci]);
                    ctx.fault("replace_with_other_cert");
                    disturbed = true;
                }
                "admin_move" => {
                    let from = disk.rejected().join(&names[ci]);
                    if from.exists() {
                        let _ = std::fs::rename(&from, disk.trusted().join(&names[ci]));
                        ctx.fault("admin_move");
                        disturbed = true;
                    }
                }
                "admin_delete" => {
                    let _ = std::fs::remove_file(dir.join(&names[ci]));
                    ctx.fault("admin_move");
                }
                "disk_fault" => {
                    let p = dir.join(&names[ci]);
                    if let Ok(mut bytes) = std::fs::read(&p) {
                        let at = (s["at"].as_u64().unwrap_or(0) as usize) % bytes.len().max(1);
                        match s["kind"].as_str().unwrap_or("flip") {
                            "truncate" => {
                                bytes.truncate(at);
                                ctx.fault("truncate_file");
                            }
                            "zero" => {
                                bytes.clear();
                                ctx.fault("zero_file");
                            }
                            "replace" => {
                                bytes = ders[(ci + 1) % NCERTS].clone();
                                ctx.fault("replace_with_other_cert");
                            }
                            _ => {
                                if !bytes.is_empty() {
                                    bytes[at] ^= 0x20;
                                }
                                ctx.fault("flip_byte");
                            }
                        }
                        let _ = std::fs::write(&p, &bytes);
                        disturbed = true;
                    }
                }
                "dir_fault" => {
                    match s["kind"].as_str().unwrap_or("remove") {
                        "remove" => {
                            let _ = std::fs::remove_dir_all(&dir);
                            ctx.fault("remove_directory");
                        }
                        "file" => {
                            let _ = std::fs::remove_dir_all(&dir);
                            let _ = std::fs::write(&dir, b"not a directory");
                            ctx.fault("directory_replaced_by_file");
                        }
                        _ => {
                            if dir.is_file() {
                                let _ = std::fs::remove_file(&dir);
                            }
                            let _ = std::fs::create_dir_all(&dir);
                        }
                    }
                    disturbed = true;
                }
                "clock" => {
                    now_days = s["days"].as_i64().unwrap_or(0);
                    crate::hooks::set_wall_us(crate::hooks::EPOCH_US + now_days * 86_400_000_000);
                    ctx.fault("clock_jump");
                    disturbed = true;
                }
                "validate" => {
                    let policy = wire::policy_by_name(s["policy"].as_str().unwrap_or("Basic256Sha256"));
                    let wrong = s["wrong_ident"].as_bool().unwrap_or(false);
                    let host: Option<&str> = if s["host"].as_bool().unwrap_or(false) { Some(if wrong { "evil.example" } else { HOST_OK }) } else { None };
                    // an application URI is compared exactly: the same URI in another case does not match
                    let uri_case = s["uri_case"].as_bool().unwrap_or(false);
                    let uri: Option<&str> = if s["uri"].as_bool().unwrap_or(false) { Some(if wrong { "urn:evil" } else if uri_case { "urn:SIM:Client" } else { URI_OK }) } else { None };
                    // state before
                    let in_rejected_before = disk.rejected().join(&names[ci]).exists();
                    let trusted_before = disk.read(&disk.trusted(), &names[ci]);
                    let rejected_dir_ok = disk.rejected().is_dir();
                    let trusted_dir_ok = disk.trusted().is_dir();
                    // either entry point: the rejecting wrapper or the plain validation
                    let verdict = if s["inner"].as_bool().unwrap_or(false) {
                        store.validate_application_instance_cert(&certs[ci], policy, host, uri)
                    } else {
                        store.validate_or_reject_application_instance_cert(&certs[ci], policy, host, uri)
                    };
                    // state after
                    let in_rejected_after = disk.rejected().join(&names[ci]).exists();
                    let trusted_after = disk.read(&disk.trusted(), &names[ci]);
                    let sp = &specs[ci];
                    let in_validity = now_days >= sp.from_days && now_days <= sp.to_days;
                    let host_ok = host.map(|h| h == sp.host || h == "10.0.0.1").unwrap_or(true);
                    let uri_ok = uri.map(|u| u == sp.uri).unwrap_or(true);
                    let key_ok = valid_key_length(policy, sp.bits);
                    let trusted_identical_before = trusted_before.as_ref().map(|b| b == &ders[ci]).unwrap_or(false);
                    let desc = format!(
                        "cert{} policy={} flags(trust_unknown={},skip_verify={},check_time={}) rejected_before={} trusted_before={} day={} host={:?} uri={:?}",
                        ci,
                        wire::policy_name(policy),
                        trust_unknown,
                        skip_verify,
                        check_time,
                        in_rejected_before,
                        if trusted_before.is_none() { "absent" } else if trusted_identical_before { "identical" } else { "different" },
                        now_days,
                        host,
                        uri
                    );
                    if disturbed || verdict.is_bad() {
                        ctx.nontrivial = true;
                    }
                    if verdict.is_good() {
                        let mut why: Vec<&str> = Vec::new();
                        if in_rejected_before {
                            why.push("certificate is in the rejected store");
                        }
                        if !(trusted_identical_before || (trusted_before.is_none() && trust_unknown)) {
                            why.push("no byte-identical trusted copy and unknown certificates are not trusted");
                        }
                        if !key_ok {
                            why.push("key length not valid for the policy");
                        }
                        if !skip_verify {
                            if check_time && !in_validity {
                                why.push("outside its validity period");
                            }
                            if !host_ok {
                                why.push("host name does not match");
                            }
                            if !uri_ok {
                                why.push("application URI does not match");
                            }
                        }
                        if !why.is_empty() {
                            ctx.violate("C18", "accepted-against-configuration", &why[0].replace(' ', "-"), format!("verdict Good although {} [{}]", why.join("; "), desc));
                        }
                        if in_rejected_after {
                            ctx.violate("C18", "accepted-certificate-in-rejected-store", "", format!("an accepted certificate is present in rejected/ afterwards [{}]", desc));
                        }
                    } else {
                        // unknown and untrusted => placed in rejected (when the disk allows it)
                        let unknown_untrusted = trusted_before.is_none() && !trust_unknown && !in_rejected_before;
                        if unknown_untrusted && rejected_dir_ok && trusted_dir_ok && !in_rejected_after {
                            ctx.violate("C18", "unknown-certificate-not-rejected", "", format!("an unknown, untrusted certificate was refused ({}) but not placed in rejected/ [{}]", verdict.name(), desc));
                        }
                    }
                    let _ = trusted_after;
                    ctx.log(
                        &format!(
                            "v{}:{}{}:{}{}{}:{}{}{}{}>{}",
                            ci,
                            if trusted_before.is_none() { 'a' } else if trusted_identical_before { 'i' } else { 'd' },
                            if in_rejected_before { 'r' } else { '-' },
                            trust_unknown as u8,
                            skip_verify as u8,
                            check_time as u8,
                            key_ok as u8,
                            in_validity as u8,
                            host_ok as u8,
                            uri_ok as u8,
                            verdict.name()
                        ),
                        &desc,
                    );
                    if verdict == StatusCode::Good {
                        ctx.probe("accepted");
                    }
                }
                _ => {}
            }
        }
        let _ = std::fs::remove_dir_all(&root);
        ctx.advance(steps.len() as u64);
    }
}
