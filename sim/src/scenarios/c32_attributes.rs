//! C32 Attribute reads and writes obey access rights and never crash.
//!
//! L2: two sessions read and write the Value (and other attributes) of a set of variables with
//! arbitrary index-range strings and value types while an application actor changes access levels.
//! Oracle: register model per variable.

use crate::ctx::Ctx;
use crate::framework::{Info, Scenario, Tier};
use crate::l2::{self, Conn, Recv, ServerSpec};
use crate::rng::Rng;
use opcua::core::supported_message::SupportedMessage;
use opcua::server::address_space::variable::VariableBuilder;
use opcua::server::address_space::{AccessLevel, UserAccessLevel};
use opcua::types::*;
use serde_json::{json, Value};

pub struct C32;

const RANGES: [&str; 20] = ["", "0", "1", "2", "5", "1:3", "0:1", "2:100", "0:4294967294", "7", "3:1", "1:1", "abc", "1,2", "-1", "4294967295", "0:1,0:1", "0,0", "1:2,3", "0:1,"];
const ATTRS: [u64; 27] = [1, 2, 3, 4, 5, 6, 7, 8, 9, 10, 11, 12, 13, 14, 15, 16, 17, 18, 19, 20, 21, 22, 23, 24, 0, 28, 4294967295];
const USTR: &str = "héllo wörld ✓ ünïcödé";

#[derive(Clone, Debug, PartialEq)]
enum Mv {
    I32(i32),
    Arr(Vec<i32>),
    Str(String),
    Bytes(Vec<u8>),
    /// an array of Byte
    BArr(Vec<u8>),
}

fn to_variant(v: &Mv) -> Variant {
    match v {
        Mv::I32(x) => Variant::Int32(*x),
        Mv::Arr(a) => Variant::from(a.clone()),
        Mv::Str(s) => Variant::String(UAString::from(s.as_str())),
        Mv::Bytes(b) => Variant::ByteString(ByteString::from(b.clone())),
        Mv::BArr(b) => Variant::from(b.clone()),
    }
}

fn from_variant(v: &Variant) -> Option<Mv> {
    match v {
        Variant::Int32(x) => Some(Mv::I32(*x)),
        Variant::String(s) => Some(Mv::Str(s.as_ref().to_string())),
        Variant::ByteString(b) => Some(Mv::Bytes(b.value.clone().unwrap_or_default())),
        Variant::Array(a) if a.value_type == VariantTypeId::Byte => {
            let mut out = Vec::new();
            for x in a.values.iter() {
                if let Variant::Byte(i) = x {
                    out.push(*i);
                } else {
                    return None;
                }
            }
            Some(Mv::BArr(out))
        }
        Variant::Array(a) => {
            let mut out = Vec::new();
            for x in a.values.iter() {
                if let Variant::Int32(i) = x {
                    out.push(*i);
                } else {
                    return None;
                }
            }
            Some(Mv::Arr(out))
        }
        _ => None,
    }
}

struct Var {
    node: NodeId,
    value: Mv,
    readable: bool,
    writable: bool,
    user_writable: bool,
    user_readable: bool,
    kind: &'static str,
}

/// Parse the subset of ranges whose meaning the model knows: "", "n", "a:b" with a < b.
fn parse_range(r: &str) -> Option<Option<(usize, usize)>> {
    if r.is_empty() {
        return Some(None);
    }
    if let Ok(n) = r.parse::<u32>() {
        if n == u32::MAX {
            return None;
        }
        return Some(Some((n as usize, n as usize)));
    }
    let parts: Vec<&str> = r.split(':').collect();
    if parts.len() == 2 {
        if let (Ok(a), Ok(b)) = (parts[0].parse::<u32>(), parts[1].parse::<u32>()) {
            if a < b {
                return Some(Some((a as usize, b as usize)));
            }
        }
    }
    None
}

impl Scenario for C32 {
    fn id(&self) -> &'static str {
        "C32"
    }
    fn info(&self) -> Info {
        Info {
            level: "exploration",
            exhaustive: false,
            layer: "L2 (real server tasks, raw clients) + application actor",
            rule: "run = seeded history of Write (matching / mismatching type, scalar / array / string / byte string, optional index range) and Read (any attribute id incl. invalid ones, arbitrary range strings) from two sessions on scalar Int32, Int32[6], ASCII string, non-ASCII string, byte string and Byte[] (value rank 1, 0, -2) variables, plus reads and writes of every attribute id of variables, objects, methods, types and unknown nodes, while the application actor flips access levels (current and history bits). Oracle: register model: Good write => the user access level has CurrentWrite and the type is compatible; a Good write is what the next Read returns (index ranges modelled for 1-D arrays, ASCII strings and byte strings), what is stored has the variable's data type, and a Good index-range write (one- or multi-dimensional) is readable with the same range; a rejected write and a write to another attribute leave the value unchanged; every operation returns a status (no panic, connection alive). non-trivial = an index range, a type mismatch or an access-level change was involved; distinct = op/outcome hash.",
            real: vec!["AttributeService (read, write)", "Variable::value / set_value / set_value_range", "Variant::range_of / set_range_of, UAString / ByteString substring", "NumericRange parser", "session access level checks", "server transport tasks"],
            stubbed: vec!["TCP socket"],
            assumptions: vec!["for non-ASCII strings and multi-dimensional ranges only the no-panic and unchanged-on-reject clauses are checked"],
            fault_kinds: vec!["index_range", "type_mismatch", "access_level_changed", "history_access_bits", "non_ascii_range", "second_session", "other_attribute_or_node", "multi_dimension_range"],
        }
    }
    fn runs(&self, tier: Tier) -> u64 {
        if tier == Tier::Thorough {
            60_000
        } else {
            3000
        }
    }
    fn gen(&self, seed: u64, run: u64, tier: Tier) -> Value {
        let mut rng = Rng::new(crate::framework::run_seed(seed, "C32", run));
        let len = if tier == Tier::Thorough { rng.urange(5, 50) } else { rng.urange(4, 25) };
        let mut steps = Vec::new();
        for _ in 0..len {
            let var = rng.below(9);
            let sess = rng.below(2);
            match rng.below(11) {
                10 => {
                    // other attributes and other kinds of node: a status for every combination
                    if rng.chance(0.5) {
                        steps.push(json!({"op": "write_attr", "node": rng.below(16), "attr": *rng.pick(&ATTRS), "vk": rng.below(10), "range": if rng.chance(0.2) { *rng.pick(&RANGES) } else { "" }, "seed": rng.below(1000), "sess": sess}));
                    } else {
                        steps.push(json!({"op": "read_attr", "node": rng.below(16), "attr": *rng.pick(&ATTRS), "range": if rng.chance(0.3) { *rng.pick(&RANGES) } else { "" }, "sess": sess}));
                    }
                }
                0..=3 => steps.push(json!({"op": "write", "var": var, "vk": if var >= 6 && rng.chance(0.6) { *rng.pick(&[4u64, 7, 7]) } else { rng.below(8) }, "range": *rng.pick(&RANGES), "seed": rng.below(1000), "sess": sess})),
                4..=7 => steps.push(json!({"op": "read", "var": var, "attr": *rng.pick(&[13u64, 13, 13, 13, 1, 2, 3, 4, 5, 14, 15, 17, 18, 0, 28, 99, 4294967295]), "range": *rng.pick(&RANGES), "sess": sess})),
                8 => steps.push(json!({"op": "access", "var": var, "readable": rng.chance(0.7), "writable": rng.chance(0.6), "user_writable": rng.chance(0.7), "user_readable": rng.chance(0.8),
                    "extra": if rng.chance(0.5) { rng.below(4) << 2 } else { 0 }, "user_extra": if rng.chance(0.5) { rng.below(4) << 2 } else { 0 }})),
                _ => steps.push(json!({"op": "write", "var": var, "vk": var, "range": "", "seed": rng.below(1000), "sess": sess})),
            }
        }
        json!({"tseed": rng.next_u64() >> 12, "steps": steps})
    }
    fn exec(&self, plan: &Value, ctx: &mut Ctx) {
        let rt = l2::runtime(plan["tseed"].as_u64().unwrap_or(1));
        rt.block_on(run(plan, ctx));
    }
}

fn gen_value(vk: u64, seed: u64) -> (Variant, Option<Mv>) {
    let s = seed as i32;
    match vk % 10 {
        7 => {
            let b: Vec<u8> = (0..(1 + seed % 6)).map(|i| (seed as u8).wrapping_mul(3).wrapping_add(i as u8)).collect();
            (Variant::from(b.clone()), Some(Mv::BArr(b)))
        }
        8 => (Variant::from(LocalizedText::from("text")), None),
        9 => (Variant::UInt32(seed as u32), None),
        0 => (Variant::Int32(s), Some(Mv::I32(s))),
        1 => {
            let n = 1 + (seed % 4) as usize;
            let a: Vec<i32> = (0..n).map(|i| s * 10 + i as i32).collect();
            (Variant::from(a.clone()), Some(Mv::Arr(a)))
        }
        2 => {
            let t = format!("text{}", seed);
            (Variant::String(UAString::from(t.as_str())), Some(Mv::Str(t)))
        }
        3 => {
            let t = format!("ünï{}✓", seed);
            (Variant::String(UAString::from(t.as_str())), Some(Mv::Str(t)))
        }
        4 => {
            let b: Vec<u8> = (0..(1 + seed % 5)).map(|i| (seed as u8).wrapping_add(i as u8)).collect();
            (Variant::ByteString(ByteString::from(b.clone())), Some(Mv::Bytes(b)))
        }
        5 => (Variant::Double(seed as f64 + 0.5), None),
        _ => (Variant::Boolean(seed % 2 == 0), None),
    }
}

fn type_compatible(var_kind: &str, v: &Variant) -> bool {
    match (var_kind, v) {
        ("scalar", Variant::Int32(_)) => true,
        ("array", Variant::Array(a)) => a.value_type == VariantTypeId::Int32,
        // the implementation accepts a scalar of the element type for an array variable and vice versa;
        // the statement only demands that an *incompatible* type is refused, so these are left open
        ("array", Variant::Int32(_)) => true,
        ("scalar", Variant::Array(a)) => a.value_type == VariantTypeId::Int32,
        ("str", Variant::String(_)) | ("ustr", Variant::String(_)) => true,
        ("bytes", Variant::ByteString(_)) => true,
        ("barr1" | "barr0" | "barrany", Variant::Array(a)) => a.value_type == VariantTypeId::Byte,
        // Part 4: a ByteString may be written to a one-dimensional Byte array; whether value rank 0
        // counts is left open here, what is stored afterwards is checked instead (stored-type clause)
        ("barr1" | "barr0" | "barrany", Variant::ByteString(_)) => true,
        (_, Variant::Empty) => true,
        _ => false,
    }
}

async fn run(plan: &Value, ctx: &mut Ctx) {
    crate::hooks::follow_tokio();
    let server = l2::build_server(&ServerSpec::default());
    let mut vars: Vec<Var> = Vec::new();
    {
        let aspace = server.address_space();
        let mut a = aspace.write();
        let ns = a.register_namespace("urn:sim:attr").unwrap_or(2);
        let defs: Vec<(&'static str, Mv)> = vec![
            ("scalar", Mv::I32(7)),
            ("array", Mv::Arr(vec![10, 11, 12, 13, 14, 15])),
            ("str", Mv::Str("hello world".to_string())),
            ("ustr", Mv::Str(USTR.to_string())),
            ("bytes", Mv::Bytes(vec![1, 2, 3, 4, 5, 6, 7, 8])),
            ("scalar", Mv::I32(-1)),
            ("barr1", Mv::BArr(vec![1, 2, 3, 4, 5, 6])),
            ("barr0", Mv::BArr(vec![9, 8, 7, 6])),
            ("barrany", Mv::BArr(vec![20, 21, 22, 23, 24])),
        ];
        for (i, (kind, val)) in defs.into_iter().enumerate() {
            let node = NodeId::new(ns, format!("{}{}", kind, i));
            let dt = match kind {
                "scalar" | "array" => DataTypeId::Int32,
                "bytes" => DataTypeId::ByteString,
                "barr1" | "barr0" | "barrany" => DataTypeId::Byte,
                _ => DataTypeId::String,
            };
            let mut b = VariableBuilder::new(&node, format!("{}{}", kind, i), format!("{}{}", kind, i)).data_type(dt).organized_by(ObjectId::ObjectsFolder).writable();
            b = b.value(to_variant(&val));
            if kind == "array" || kind == "barr1" {
                b = b.value_rank(1);
            }
            if kind == "barr0" {
                b = b.value_rank(0);
            }
            if kind == "barrany" {
                b = b.value_rank(-2);
            }
            b.insert(&mut a);
            vars.push(Var {
                node,
                value: val,
                readable: true,
                writable: true,
                user_writable: true,
                user_readable: true,
                kind,
            });
        }
    }
    // nodes of other classes (and one that does not exist) for the every-combination clause
    let others: Vec<NodeId> = vec![
        ObjectId::Server.into(),
        ObjectId::ObjectsFolder.into(),
        MethodId::Server_GetMonitoredItems.into(),
        VariableTypeId::BaseDataVariableType.into(),
        ObjectTypeId::BaseObjectType.into(),
        ReferenceTypeId::Organizes.into(),
        DataTypeId::Int32.into(),
        VariableId::Server_ServerStatus_CurrentTime.into(),
        VariableId::Server_ServerStatus.into(),
        NodeId::new(7, "nowhere"),
        NodeId::null(),
    ];
    let mut conns = Vec::new();
    for s in 0..2u16 {
        let mut c = Conn::connect(&server, 100.0, 1 << 20, 55000 + s);
        if !c.handshake(opcua::crypto::SecurityPolicy::None, MessageSecurityMode::None, 2048).await {
            return;
        }
        conns.push(c);
    }
    let steps = plan["steps"].as_array().cloned().unwrap_or_default();
    for (i, s) in steps.iter().enumerate() {
        ctx.step(i);
        let op = s["op"].as_str().unwrap_or("");
        let vi = (s["var"].as_u64().unwrap_or(0) as usize) % vars.len();
        let si = (s["sess"].as_u64().unwrap_or(0) as usize) % conns.len();
        if si == 1 {
            ctx.fault("second_session");
        }
        if conns.iter().any(|c| !c.is_open()) {
            ctx.violate("C32", "connection-lost", "", "a connection was closed by the server during attribute reads/writes".to_string());
            break;
        }
        let range = s["range"].as_str().unwrap_or("").to_string();
        match op {
            "access" => {
                let aspace = server.address_space();
                let mut a = aspace.write();
                if let Some(v) = a.find_variable_mut(vars[vi].node.clone()) {
                    let mut al = AccessLevel::empty();
                    let mut ual = UserAccessLevel::empty();
                    let (r, w, uw, ur) = (s["readable"].as_bool().unwrap_or(true), s["writable"].as_bool().unwrap_or(true), s["user_writable"].as_bool().unwrap_or(true), s["user_readable"].as_bool().unwrap_or(true));
                    if r {
                        al |= AccessLevel::CURRENT_READ;
                    }
                    if w {
                        al |= AccessLevel::CURRENT_WRITE;
                    }
                    if ur {
                        ual |= UserAccessLevel::CURRENT_READ;
                    }
                    if uw {
                        ual |= UserAccessLevel::CURRENT_WRITE;
                    }
                    // bits that have nothing to do with writing the current value
                    al |= AccessLevel::from_bits_truncate(s["extra"].as_u64().unwrap_or(0) as u8 & 12);
                    ual |= UserAccessLevel::from_bits_truncate(s["user_extra"].as_u64().unwrap_or(0) as u8 & 12);
                    if s["extra"].as_u64().unwrap_or(0) | s["user_extra"].as_u64().unwrap_or(0) != 0 {
                        ctx.fault("history_access_bits");
                    }
                    v.set_access_level(al);
                    v.set_user_access_level(ual);
                    vars[vi].readable = r;
                    vars[vi].writable = w;
                    vars[vi].user_writable = uw;
                    vars[vi].user_readable = ur;
                    ctx.fault("access_level_changed");
                }
                ctx.log("access", &format!("v{} r{} w{}", vi, vars[vi].readable, vars[vi].writable));
            }
            "write" => {
                let (val, mv) = gen_value(s["vk"].as_u64().unwrap_or(0), s["seed"].as_u64().unwrap_or(0));
                if !range.is_empty() {
                    ctx.fault("index_range");
                    if vars[vi].kind == "ustr" {
                        ctx.fault("non_ascii_range");
                    }
                    if range.contains(',') {
                        ctx.fault("multi_dimension_range");
                    }
                }
                let compatible = type_compatible(vars[vi].kind, &val);
                if !compatible {
                    ctx.fault("type_mismatch");
                }
                let hdr = conns[si].header();
                let req: SupportedMessage = WriteRequest {
                    request_header: hdr,
                    nodes_to_write: Some(vec![WriteValue {
                        node_id: vars[vi].node.clone(),
                        attribute_id: AttributeId::Value as u32,
                        index_range: if range.is_empty() { UAString::null() } else { UAString::from(range.as_str()) },
                        value: DataValue::value_only(val.clone()),
                    }]),
                }
                .into();
                let r = conns[si].call(req).await;
                let st = match &r {
                    Recv::Msg(_, SupportedMessage::WriteResponse(resp)) => resp.results.as_ref().map(|v| v[0]),
                    _ => None,
                };
                ctx.log(&format!("write({},{},{})>{}", vars[vi].kind, if compatible { "compat" } else { "mismatch" }, if range.is_empty() { "full" } else { "range" }, st.map(|s| s.name().to_string()).unwrap_or_else(|| l2::recv_kind(&r))), &range);
                let st = match st {
                    Some(s) => s,
                    None => {
                        if !matches!(r, Recv::Msg(_, SupportedMessage::ServiceFault(_))) {
                            ctx.violate("C32", "no-status-for-write", "", format!("Write was answered with {}", l2::recv_kind(&r)));
                        }
                        continue;
                    }
                };
                // the statement (and the implementation) make the *user* access level the authority
                let allowed = vars[vi].user_writable;
                if st.is_good() {
                    if !allowed {
                        ctx.violate("C32", "write-without-access", "", format!("Write to a variable with access_level.write={} user_access_level.write={} returned Good", vars[vi].writable, vars[vi].user_writable));
                    }
                    if !compatible {
                        ctx.violate("C32", "incompatible-type-written", vars[vi].kind, format!("Write of {:?} to a {} variable returned Good", val.type_id(), vars[vi].kind));
                    }
                    // update the model
                    match parse_range(&range) {
                        Some(None) => {
                            if let (true, Some(Mv::Bytes(b))) = (vars[vi].kind.starts_with("barr"), &mv) {
                                vars[vi].value = Mv::BArr(b.clone());
                            } else if let Some(ref mv) = mv {
                                vars[vi].value = mv.clone();
                            } else if let Variant::Empty = val {
                            } else {
                                // unknown to the model: re-read below
                            }
                        }
                        Some(Some((lo, hi))) => {
                            if let (Mv::Arr(cur), Some(Mv::Arr(src))) = (&mut vars[vi].value, &mv) {
                                let mut idx = lo;
                                while idx < cur.len() && idx <= hi && idx - lo < src.len() {
                                    cur[idx] = src[idx - lo];
                                    idx += 1;
                                }
                            }
                            let bsrc: Option<Vec<u8>> = match &mv {
                                Some(Mv::BArr(b)) | Some(Mv::Bytes(b)) => Some(b.clone()),
                                _ => None,
                            };
                            if let (Mv::BArr(cur), Some(src)) = (&mut vars[vi].value, bsrc) {
                                let mut idx = lo;
                                while idx < cur.len() && idx <= hi && idx - lo < src.len() {
                                    cur[idx] = src[idx - lo];
                                    idx += 1;
                                }
                            }
                        }
                        None => {}
                    }
                }
                // whatever happened: the full value must now equal the model (rejected writes change nothing)
                let known = parse_range(&range).is_some() && (mv.is_some() || !st.is_good());
                let full = read_full(&server, &vars[vi].node);
                if known && compatible || !st.is_good() {
                    if let Some(actual) = full.as_ref().and_then(from_variant) {
                        if actual != vars[vi].value {
                            ctx.violate(
                                "C32",
                                if st.is_good() { "write-not-observed" } else { "rejected-write-changed-value" },
                                vars[vi].kind,
                                format!("after Write({:?}, range '{}') -> {}: value is {:?}, model has {:?}", mv, range, st.name(), actual, vars[vi].value),
                            );
                            vars[vi].value = actual;
                        }
                    }
                } else if let Some(actual) = full.as_ref().and_then(from_variant) {
                    vars[vi].value = actual; // resynchronise where the model does not know the semantics
                }
                if st.is_good() {
                    // what is stored after a successful write has the variable's data type
                    if let Some(v) = full.as_ref() {
                        if !stored_type_ok(vars[vi].kind, v) {
                            ctx.violate("C32", "stored-type-differs-from-data-type", vars[vi].kind, format!("after a Good Write of {:?} (range '{}') the {} variable holds a {:?}", val.type_id(), range, vars[vi].kind, v.type_id()));
                        }
                    }
                    // a successful index-range write is observed by a Read with the same range
                    if !range.is_empty() && vars[vi].user_readable {
                        let hdr = conns[si].header();
                        let req: SupportedMessage = ReadRequest {
                            request_header: hdr,
                            max_age: 0.0,
                            timestamps_to_return: TimestampsToReturn::Neither,
                            nodes_to_read: Some(vec![ReadValueId { node_id: vars[vi].node.clone(), attribute_id: AttributeId::Value as u32, index_range: UAString::from(range.as_str()), data_encoding: QualifiedName::null() }]),
                        }
                        .into();
                        let r = conns[si].call(req).await;
                        if let Recv::Msg(_, SupportedMessage::ReadResponse(resp)) = &r {
                            let rst = resp.results.as_ref().and_then(|v| v.first()).map(|d| d.status.unwrap_or(StatusCode::Good));
                            ctx.log("readback", rst.map(|s| s.name()).unwrap_or("-"));
                            ctx.probe("range_write_read_back");
                            if let Some(rst) = rst {
                                if !rst.is_good() {
                                    ctx.violate("C32", "range-write-not-readable", vars[vi].kind, format!("Write with index range '{}' returned Good but a Read with the same range returns {}", range, rst.name()));
                                }
                            }
                        }
                    }
                }
            }
            "write_attr" | "read_attr" => {
                ctx.fault("other_attribute_or_node");
                let ni = s["node"].as_u64().unwrap_or(0) as usize;
                let node: NodeId = if ni < vars.len() { vars[ni].node.clone() } else { others[(ni - vars.len()) % others.len()].clone() };
                let attr = s["attr"].as_u64().unwrap_or(13) as u32;
                let before = if ni < vars.len() { read_full(&server, &node) } else { None };
                let hdr = conns[si].header();
                let req: SupportedMessage = if op == "write_attr" {
                    let (val, _) = gen_value(s["vk"].as_u64().unwrap_or(0), s["seed"].as_u64().unwrap_or(0));
                    WriteRequest {
                        request_header: hdr,
                        nodes_to_write: Some(vec![WriteValue { node_id: node.clone(), attribute_id: attr, index_range: if range.is_empty() { UAString::null() } else { UAString::from(range.as_str()) }, value: DataValue::value_only(val) }]),
                    }
                    .into()
                } else {
                    ReadRequest {
                        request_header: hdr,
                        max_age: 0.0,
                        timestamps_to_return: TimestampsToReturn::Both,
                        nodes_to_read: Some(vec![ReadValueId { node_id: node.clone(), attribute_id: attr, index_range: if range.is_empty() { UAString::null() } else { UAString::from(range.as_str()) }, data_encoding: QualifiedName::null() }]),
                    }
                    .into()
                };
                let r = conns[si].call(req).await;
                let st: Option<StatusCode> = match &r {
                    Recv::Msg(_, SupportedMessage::WriteResponse(resp)) => resp.results.as_ref().and_then(|v| v.first().cloned()),
                    Recv::Msg(_, SupportedMessage::ReadResponse(resp)) => resp.results.as_ref().and_then(|v| v.first()).map(|d| d.status.unwrap_or(StatusCode::Good)),
                    _ => None,
                };
                ctx.log(&format!("{}(n{},attr{})>{}", op, ni.min(vars.len()), attr, st.map(|s| s.name().to_string()).unwrap_or_else(|| l2::recv_kind(&r))), &range);
                if st.is_none() && !matches!(r, Recv::Msg(_, SupportedMessage::ServiceFault(_))) {
                    ctx.violate("C32", if op == "write_attr" { "no-status-for-write" } else { "no-status-for-read" }, "other", format!("{} of attribute {} of {} was answered with {}", op, attr, node, l2::recv_kind(&r)));
                }
                if ni < vars.len() && op == "write_attr" {
                    if attr == AttributeId::Value as u32 {
                        // an ordinary value write that the register model did not follow: resynchronise
                        if let Some(actual) = read_full(&server, &node).as_ref().and_then(from_variant) {
                            vars[ni].value = actual;
                        }
                    } else {
                        // a write to another attribute never touches the value
                        let after = read_full(&server, &node);
                        if before != after {
                            ctx.violate("C32", "rejected-write-changed-value", "other-attribute", format!("a Write to attribute {} changed the Value of {}", attr, node));
                        }
                        if st.map(|s| s.is_good()).unwrap_or(false) {
                            // follow an accepted change of the access levels
                            let aspace = server.address_space();
                            let a = aspace.read();
                            if let Some(opcua::server::address_space::types::NodeType::Variable(v)) = a.find_node(&node) {
                                vars[ni].readable = v.access_level().contains(AccessLevel::CURRENT_READ);
                                vars[ni].writable = v.access_level().contains(AccessLevel::CURRENT_WRITE);
                                vars[ni].user_readable = v.user_access_level().contains(UserAccessLevel::CURRENT_READ);
                                vars[ni].user_writable = v.user_access_level().contains(UserAccessLevel::CURRENT_WRITE);
                            }
                        }
                    }
                }
            }
            "read" => {
                let attr = s["attr"].as_u64().unwrap_or(13) as u32;
                if !range.is_empty() {
                    ctx.fault("index_range");
                    if vars[vi].kind == "ustr" {
                        ctx.fault("non_ascii_range");
                    }
                }
                let hdr = conns[si].header();
                let req: SupportedMessage = ReadRequest {
                    request_header: hdr,
                    max_age: 0.0,
                    timestamps_to_return: TimestampsToReturn::Both,
                    nodes_to_read: Some(vec![ReadValueId {
                        node_id: vars[vi].node.clone(),
                        attribute_id: attr,
                        index_range: if range.is_empty() { UAString::null() } else { UAString::from(range.as_str()) },
                        data_encoding: QualifiedName::null(),
                    }]),
                }
                .into();
                let r = conns[si].call(req).await;
                let dv = match &r {
                    Recv::Msg(_, SupportedMessage::ReadResponse(resp)) => resp.results.as_ref().and_then(|v| v.first().cloned()),
                    _ => None,
                };
                let st = dv.as_ref().map(|d| d.status.unwrap_or(StatusCode::Good));
                ctx.log(&format!("read({},attr{},{})>{}", vars[vi].kind, attr, if range.is_empty() { "full" } else { "range" }, st.map(|s| s.name().to_string()).unwrap_or_else(|| l2::recv_kind(&r))), &range);
                let dv = match dv {
                    Some(d) => d,
                    None => {
                        if !matches!(r, Recv::Msg(_, SupportedMessage::ServiceFault(_))) {
                            ctx.violate("C32", "no-status-for-read", "", format!("Read was answered with {}", l2::recv_kind(&r)));
                        }
                        continue;
                    }
                };
                if attr == 13 && dv.status.map(|s| s.is_good()).unwrap_or(true) {
                    if !vars[vi].user_readable {
                        ctx.violate("C32", "read-without-access", "", "Read of an unreadable variable returned a Good value".to_string());
                    }
                    // compare with the model where the semantics are known
                    let expected: Option<Mv> = match (parse_range(&range), &vars[vi].value) {
                        (Some(None), v) => Some(v.clone()),
                        (Some(Some((lo, hi))), Mv::Arr(a)) => {
                            if lo < a.len() {
                                Some(Mv::Arr(a[lo..=hi.min(a.len() - 1)].to_vec()))
                            } else {
                                None
                            }
                        }
                        (Some(Some((lo, hi))), Mv::Str(t)) if t.is_ascii() => {
                            if lo < t.len() {
                                Some(Mv::Str(t[lo..=hi.min(t.len() - 1)].to_string()))
                            } else {
                                None
                            }
                        }
                        (Some(Some((lo, hi))), Mv::Bytes(b)) => {
                            if lo < b.len() {
                                Some(Mv::Bytes(b[lo..=hi.min(b.len() - 1)].to_vec()))
                            } else {
                                None
                            }
                        }
                        _ => None,
                    };
                    if let (Some(exp), Some(val)) = (expected.clone(), dv.value.as_ref()) {
                        if let Some(actual) = from_variant(val) {
                            if actual != exp {
                                ctx.violate("C32", "read-differs-from-written", vars[vi].kind, format!("Read(range '{}') returned {:?}, the register model has {:?}", range, actual, exp));
                            }
                        }
                    }
                    if expected.is_none() && parse_range(&range).map(|r| r.is_some()).unwrap_or(false) && !matches!(vars[vi].value, Mv::Str(_)) {
                        // range starts beyond the value: a Good answer with data would be wrong
                        if let (Mv::Arr(_) | Mv::Bytes(_), Some(_)) = (&vars[vi].value, dv.value.as_ref()) {
                            ctx.violate("C32", "read-beyond-end-returned-data", vars[vi].kind, format!("Read(range '{}') beyond the end of the value returned data", range));
                        }
                    }
                }
            }
            _ => {}
        }
        tokio::time::sleep(std::time::Duration::from_millis(1)).await;
    }
    ctx.advance(1000 * steps.len() as u64);
}

fn stored_type_ok(kind: &str, v: &Variant) -> bool {
    let want = match kind {
        "scalar" | "array" => VariantTypeId::Int32,
        "str" | "ustr" => VariantTypeId::String,
        "bytes" => VariantTypeId::ByteString,
        _ => VariantTypeId::Byte,
    };
    match v {
        Variant::Empty => true,
        Variant::Array(a) => a.value_type == want,
        other => other.type_id() == want,
    }
}

fn read_full(server: &opcua::server::prelude::Server, node: &NodeId) -> Option<Variant> {
    let aspace = server.address_space();
    let a = aspace.read();
    a.get_variable_value(node.clone()).ok().and_then(|d| d.value)
}
