//! C11 Framing is independent of how the byte stream is segmented.
//!
//! (a) real `FramedRead<_, TcpCodec>` over a simulated `AsyncRead` that delivers the stream in
//!     plan-chosen segments (down to one byte) with `Pending` between them;
//! (b) real client `SendBuffer` (`write` / `encode_next_chunk` / `read_into_async`) against a
//!     simulated `AsyncWrite` with short writes, `Pending` and cancellation (dropping the
//!     in-flight future), which the code comments claim is safe.

use crate::ctx::Ctx;
use crate::framework::{Info, Scenario, Tier};
use crate::rng::Rng;
use crate::simio::{poll_once, SegReader, SinkWriter};
use crate::wire;
use bytes::BytesMut;
use futures::StreamExt;
use opcua::client::transport::buffer::SendBuffer;
use opcua::core::comms::chunker::Chunker;
use opcua::core::comms::message_chunk::{MessageChunk, MessageChunkType, MessageIsFinalType};
use opcua::core::comms::secure_channel::Role;
use opcua::core::comms::tcp_codec::{Message, TcpCodec};
use opcua::core::comms::tcp_types::*;
use opcua::types::*;
use serde_json::{json, Value};
use tokio_util::codec::{Decoder, Encoder, FramedRead};

pub struct C11;

const ENUM_A: u64 = 1 << 15; // all compositions of a 16-byte ERR frame
const STREAM_B: [(&str, u64); 4] = [("hel", 20), ("ack", 0), ("err", 0), ("msg", 1)];

fn frame_bytes(kind: &str, n: u64, idx: usize) -> Vec<u8> {
    let mut codec = TcpCodec::new(DecodingOptions::default());
    let mut buf = BytesMut::new();
    let chan = wire::bare_channel(Role::Client, DecodingOptions::default());
    let msg = match kind {
        "hel" => {
            let mut url = String::from("opc.tcp://h/");
            while (url.len() as u64) < n {
                url.push('x');
            }
            Message::Hello(HelloMessage::new(&url, 65536, 65536, 0, 0))
        }
        "ack" => {
            let mut a = AcknowledgeMessage {
                message_header: MessageHeader::new(MessageType::Acknowledge),
                protocol_version: 0,
                receive_buffer_size: 8196 + n as u32,
                send_buffer_size: 8196,
                max_message_size: 0,
                max_chunk_count: idx as u32,
            };
            a.message_header.message_size = 28;
            Message::Acknowledge(a)
        }
        "err" => {
            if n == 0 {
                let mut e = ErrorMessage {
                    message_header: MessageHeader::new(MessageType::Error),
                    error: StatusCode::BadTimeout.bits(),
                    reason: UAString::null(),
                };
                e.message_header.message_size = 16;
                Message::Error(e)
            } else {
                Message::Error(ErrorMessage::from_status_code(StatusCode::BadTcpMessageTooLarge))
            }
        }
        k => {
            let (t, f) = match k {
                "opn" => (MessageChunkType::OpenSecureChannel, MessageIsFinalType::Final),
                "clo" => (MessageChunkType::CloseSecureChannel, MessageIsFinalType::Final),
                "msgc" => (MessageChunkType::Message, MessageIsFinalType::Intermediate),
                "msga" => (MessageChunkType::Message, MessageIsFinalType::FinalError),
                _ => (MessageChunkType::Message, MessageIsFinalType::Final),
            };
            let data: Vec<u8> = (0..n).map(|i| (i as u8).wrapping_mul(31).wrapping_add(idx as u8)).collect();
            Message::Chunk(MessageChunk::new(idx as u32 + 1, 7, t, f, &chan, &data).expect("chunk"))
        }
    };
    codec.encode(msg, &mut buf).expect("encode");
    buf.to_vec()
}

fn reencode(m: Message) -> Vec<u8> {
    let mut codec = TcpCodec::new(DecodingOptions::default());
    let mut buf = BytesMut::new();
    let _ = codec.encode(m, &mut buf);
    buf.to_vec()
}

fn composition_from_bits(bits: u64, len: usize) -> Vec<usize> {
    // bit i set => cut after byte i (i in 0..len-1)
    let mut segs = Vec::new();
    let mut cur = 0usize;
    for i in 0..len {
        cur += 1;
        if i + 1 < len && (bits >> i) & 1 == 1 {
            segs.push(cur);
            cur = 0;
        }
    }
    if cur > 0 {
        segs.push(cur);
    }
    segs
}

fn two_cut(k: u64, len: usize) -> Vec<usize> {
    // enumerate pairs 1 <= a < b <= len-1
    let mut k = k;
    for a in 1..len {
        let cnt = (len - 1 - a) as u64;
        if k < cnt {
            let b = a + 1 + k as usize;
            return vec![a, b - a, len - b];
        }
        k -= cnt;
    }
    vec![len]
}

fn n_two_cuts(len: usize) -> u64 {
    let n = (len - 1) as u64;
    n * (n - 1) / 2
}

fn stream_len(frames: &[(&str, u64)]) -> usize {
    frames.iter().enumerate().map(|(i, (k, n))| frame_bytes(k, *n, i).len()).sum()
}

fn steps_json(frames: &[(&str, u64)]) -> Value {
    Value::Array(frames.iter().map(|(k, n)| json!({"f": k, "n": n})).collect())
}

const STREAM_C: [(&str, u64); 5] = [("hel", 60), ("opn", 90), ("msgc", 70), ("msg", 33), ("clo", 9)];

impl C11 {
    fn enum_sizes(&self, tier: Tier) -> (u64, u64, u64, u64) {
        let lb = stream_len(&STREAM_B);
        let b1 = (lb - 1) as u64 + 1; // all single cuts + all-single-bytes
        let b2 = n_two_cuts(lb);
        let c2 = if tier == Tier::Thorough { n_two_cuts(stream_len(&STREAM_C)) } else { 0 };
        (ENUM_A, b1, b2, c2)
    }
}

impl Scenario for C11 {
    fn id(&self) -> &'static str {
        "C11"
    }
    fn info(&self) -> Info {
        Info {
            level: "fault_enumeration",
            exhaustive: false,
            layer: "L2-lite (manual poller, no runtime)",
            rule: "run = one frame stream + one segmentation (codec) or one message list + one partial-write/Pending/cancel schedule (send buffer). Enumerated part: all 2^15 compositions of a 16-byte ERR frame; all single cuts, the all-single-bytes split and all 2-cut splits of a HEL+ACK+ERR+MSG stream (thorough: also all 2-cut splits of a 5-frame HEL/OPN/MSG-C/MSG-F/CLO stream); the rest is seeded random. non-trivial = at least one frame was split across reads or one write was short/Pending/cancelled; distinct = distinct hash of (frame kinds, segment-boundary classes relative to frame/header boundaries, outcome).",
            real: vec!["core::comms::tcp_codec::TcpCodec (Decoder+Encoder)", "tokio_util FramedRead", "client::transport::buffer::SendBuffer", "Chunker::encode", "SecureChannel::apply_security (policy None)"],
            stubbed: vec!["socket (simulated AsyncRead/AsyncWrite)", "client poll loop (harness mirrors TcpTransport::poll_inner's use of the send buffer)"],
            assumptions: vec!["send-buffer part uses security policy None; secured chunk bytes are covered by C07"],
            fault_kinds: vec!["read_split", "read_pending", "short_write", "write_pending", "write_cancel", "frame_over_message_size_limit"],
        }
    }
    fn runs(&self, tier: Tier) -> u64 {
        let (a, b1, b2, c2) = self.enum_sizes(tier);
        a + b1 + b2 + c2 + if tier == Tier::Thorough { 1_500_000 } else { 40_000 }
    }
    fn gen(&self, seed: u64, run: u64, tier: Tier) -> Value {
        let (a, b1, b2, c2) = self.enum_sizes(tier);
        let mut r = run;
        if r < a {
            return json!({"mode": "codec", "steps": [{"f": "err", "n": 0}], "segs": composition_from_bits(r, 16), "pending": r % 3 == 0, "enum": "A"});
        }
        r -= a;
        let lb = stream_len(&STREAM_B);
        if r < b1 {
            let segs = if r == 0 { vec![1usize; lb] } else { vec![r as usize, lb - r as usize] };
            return json!({"mode": "codec", "steps": steps_json(&STREAM_B), "segs": segs, "pending": r % 2 == 0, "enum": "B1"});
        }
        r -= b1;
        if r < b2 {
            return json!({"mode": "codec", "steps": steps_json(&STREAM_B), "segs": two_cut(r, lb), "pending": r % 2 == 0, "enum": "B2"});
        }
        r -= b2;
        if r < c2 {
            return json!({"mode": "codec", "steps": steps_json(&STREAM_C), "segs": two_cut(r, stream_len(&STREAM_C)), "pending": r % 2 == 1, "enum": "C2"});
        }
        let mut rng = Rng::new(crate::framework::run_seed(seed, "C11", run));
        if rng.chance(0.6) {
            // random codec run
            let kinds = ["hel", "ack", "err", "msg", "opn", "clo", "msgc", "msga"];
            let nframes = rng.urange(1, 6);
            let mut frames: Vec<(String, u64)> = Vec::new();
            for _ in 0..nframes {
                let k = *rng.pick(&kinds);
                let n = match rng.below(6) {
                    0 => 0,
                    1 => rng.below(4),
                    2 => rng.below(300),
                    3 => 8150 + rng.below(100), // around FramedRead's 8 KiB initial capacity
                    4 => rng.below(20000),
                    _ => rng.below(64),
                };
                let n = if k == "hel" { n.min(12_000) } else { n };
                frames.push((k.to_string(), n));
            }
            let fr: Vec<(&str, u64)> = frames.iter().map(|(k, n)| (k.as_str(), *n)).collect();
            let total = stream_len(&fr);
            let mut segs = Vec::new();
            let style = rng.below(5);
            let mut left = total;
            while left > 0 && segs.len() < 100_000 {
                let s = match style {
                    0 => 1,
                    1 => rng.urange(1, 9),
                    2 => rng.urange(1, 4096),
                    3 => {
                        if rng.chance(0.5) {
                            rng.urange(1, 12)
                        } else {
                            rng.urange(1, 20000)
                        }
                    }
                    _ => rng.urange(7, 9),
                }
                .min(left);
                segs.push(s);
                left -= s;
            }
            // some runs decode under a small message-size limit, so that some frames are over it:
            // the refusal must not depend on the segmentation either
            let max_msg = if rng.chance(0.15) { *rng.pick(&[8192usize, 8300, 9000, 12000]) } else { 0 };
            json!({"mode": "codec", "steps": steps_json(&fr), "segs": segs, "pending": rng.chance(0.5), "max_msg": max_msg})
        } else {
            let nmsg = rng.urange(1, 4);
            let buffer = *rng.pick(&[8196usize, 8196, 8197, 9001, 16384, 65536]);
            let mut steps = Vec::new();
            for _ in 0..nmsg {
                let size = match rng.below(5) {
                    0 => rng.urange(60, 300),
                    1 => buffer - 100 + rng.urange(0, 200),
                    2 => 2 * buffer - 150 + rng.urange(0, 300),
                    3 => rng.urange(60, 4 * buffer),
                    _ => 3 * buffer + rng.urange(0, 64),
                };
                steps.push(json!({"size": size}));
            }
            let max_accept = match rng.below(4) {
                0 => 1,
                1 => rng.urange(1, 16),
                2 => rng.urange(1, 5000),
                _ => 100_000,
            };
            json!({"mode": "sendbuf", "steps": steps, "buffer": buffer, "wseed": rng.next_u64() >> 16, "max_accept": max_accept,
                   "pending_rate": if rng.chance(0.5) { 0.0 } else { 0.3 }, "cancel_rate": if rng.chance(0.5) { 0.0 } else { 0.5 }})
        }
    }

    fn exec(&self, plan: &Value, ctx: &mut Ctx) {
        if plan["mode"] == "sendbuf" {
            exec_sendbuf(plan, ctx)
        } else {
            exec_codec(plan, ctx)
        }
    }

    fn simplify(&self, plan: &Value) -> Vec<Value> {
        let mut out = Vec::new();
        if plan["mode"] == "codec" {
            // merge adjacent segments
            if let Some(segs) = plan["segs"].as_array() {
                for i in 0..segs.len().saturating_sub(1).min(40) {
                    let mut s: Vec<u64> = segs.iter().map(|x| x.as_u64().unwrap_or(1)).collect();
                    let m = s[i] + s[i + 1];
                    s[i] = m;
                    s.remove(i + 1);
                    let mut p = plan.clone();
                    p["segs"] = json!(s);
                    out.push(p);
                }
            }
            if plan["pending"] == true {
                let mut p = plan.clone();
                p["pending"] = json!(false);
                out.push(p);
            }
            if let Some(steps) = plan["steps"].as_array() {
                for i in 0..steps.len() {
                    let n = steps[i]["n"].as_u64().unwrap_or(0);
                    if n > 0 {
                        let mut p = plan.clone();
                        p["steps"][i]["n"] = json!(n / 2);
                        out.push(p);
                    }
                }
            }
        } else {
            for (k, v) in [("cancel_rate", json!(0.0)), ("pending_rate", json!(0.0)), ("max_accept", json!(100000))] {
                if plan[k] != v {
                    let mut p = plan.clone();
                    p[k] = v;
                    out.push(p);
                }
            }
            if let Some(steps) = plan["steps"].as_array() {
                for i in 0..steps.len() {
                    let n = steps[i]["size"].as_u64().unwrap_or(0);
                    if n > 100 {
                        let mut p = plan.clone();
                        p["steps"][i]["size"] = json!(n / 2);
                        out.push(p);
                    }
                }
            }
        }
        out
    }
}

fn exec_codec(plan: &Value, ctx: &mut Ctx) {
    let steps = plan["steps"].as_array().cloned().unwrap_or_default();
    let mut frames: Vec<Vec<u8>> = Vec::new();
    for (i, s) in steps.iter().enumerate() {
        frames.push(frame_bytes(s["f"].as_str().unwrap_or("msg"), s["n"].as_u64().unwrap_or(0), i));
    }
    let stream: Vec<u8> = frames.iter().flatten().cloned().collect();
    let segs: Vec<usize> = plan["segs"].as_array().map(|a| a.iter().map(|x| x.as_u64().unwrap_or(1) as usize).collect()).unwrap_or_default();
    let pending = plan["pending"].as_bool().unwrap_or(false);

    // classify the segmentation relative to frame boundaries (for the shape hash and probes)
    let mut boundaries = Vec::new();
    let mut off = 0usize;
    for f in frames.iter() {
        boundaries.push((off, off + f.len()));
        off += f.len();
    }
    let mut pos = 0usize;
    let mut split_header = false;
    let mut split_body = false;
    let mut at_boundary = false;
    let mut cls = String::new();
    for s in segs.iter() {
        pos += *s;
        if pos >= stream.len() {
            break;
        }
        let mut c = 'x';
        for (a, b) in boundaries.iter() {
            if pos == *a {
                at_boundary = true;
                c = 'b';
            } else if pos > *a && pos < *b {
                if pos - a <= 8 {
                    split_header = true;
                    c = if pos - a == 8 { 'H' } else { 'h' };
                } else {
                    split_body = true;
                    c = 'd';
                }
            }
        }
        if cls.len() < 64 {
            cls.push(c);
        }
    }
    if split_header || split_body {
        ctx.fault("read_split");
    }
    if split_header {
        ctx.probe("split_inside_8_byte_header");
    }
    if at_boundary {
        ctx.probe("cut_exactly_at_frame_boundary");
    }
    if segs.iter().all(|s| *s == 1) && stream.len() > 1 {
        ctx.probe("single_byte_reads");
    }

    let max_msg = plan["max_msg"].as_u64().unwrap_or(0) as usize;
    let options = if max_msg > 0 {
        ctx.fault("frame_over_message_size_limit");
        DecodingOptions { max_message_size: max_msg, ..Default::default() }
    } else {
        DecodingOptions::default()
    };
    // reference: whole stream at once through the codec
    let mut reference: Vec<Vec<u8>> = Vec::new();
    {
        let mut codec = TcpCodec::new(options.clone());
        let mut buf = BytesMut::from(&stream[..]);
        loop {
            match codec.decode(&mut buf) {
                Ok(Some(m)) => reference.push(reencode(m)),
                Ok(None) => break,
                Err(_) => {
                    reference.push(b"ERR".to_vec());
                    break;
                }
            }
        }
    }
    let limited = max_msg > 0;
    if !limited && reference != frames {
        ctx.violate("C11", "unsegmented-decode", "", format!("decoding the unsegmented stream yields {} frames, sender wrote {}", reference.len(), frames.len()));
    }

    // segmented: real FramedRead over the simulated reader
    let reader = SegReader::new(stream.clone(), segs.clone(), pending);
    let mut framed = FramedRead::new(reader, TcpCodec::new(options.clone()));
    let mut got: Vec<Vec<u8>> = Vec::new();
    let mut polls = 0u64;
    let mut outcome = "eof";
    loop {
        polls += 1;
        if polls > 4 * (segs.len() as u64 + frames.len() as u64) + 1000 {
            outcome = "stuck";
            break;
        }
        let mut fut = framed.next();
        match poll_once(std::pin::Pin::new(&mut fut)) {
            std::task::Poll::Pending => continue,
            std::task::Poll::Ready(None) => break,
            std::task::Poll::Ready(Some(Ok(m))) => got.push(reencode(m)),
            std::task::Poll::Ready(Some(Err(_))) => {
                outcome = "error";
                break;
            }
        }
    }
    let r = framed.get_ref();
    if r.pendings > 0 {
        ctx.fault("read_pending");
        ctx.add("fault.read_pending", r.pendings - 1);
    }
    ctx.advance(polls); // 1 us per poll: there is no timer in this scenario
    ctx.step(0);
    ctx.log(
        &format!("codec kinds={} cls={} out={}", steps.iter().map(|s| s["f"].as_str().unwrap_or("?").chars().next().unwrap_or('?')).collect::<String>(), cls, outcome),
        &format!("frames={} bytes={} segs={}", got.len(), stream.len(), segs.len()),
    );
    if limited {
        // differential: the segmented receiver must yield what the unsegmented one yields, frame
        // for frame, including where it refuses the stream
        let ref_error = reference.last().map(|f| f.as_slice() == b"ERR").unwrap_or(false);
        let ref_frames: Vec<Vec<u8>> = reference.iter().filter(|f| f.as_slice() != b"ERR").cloned().collect();
        let same = got == ref_frames && ((outcome == "error") == ref_error) && outcome != "stuck";
        if !same {
            ctx.violate(
                "C11",
                "codec-frames-differ",
                "under-size-limit",
                format!("with a maximum message size of {}: segmented read yields {} frames (outcome {}), the unsegmented read yields {} frames (outcome {})", max_msg, got.len(), outcome, ref_frames.len(), if ref_error { "error" } else { "eof" }),
            );
        }
        return;
    }
    if got != frames || outcome != "eof" {
        let first_bad = got.iter().zip(frames.iter()).position(|(a, b)| a != b).unwrap_or(got.len().min(frames.len()));
        ctx.violate(
            "C11",
            "codec-frames-differ",
            outcome,
            format!("segmented read yields {} frames (outcome {}), expected {}; first difference at frame {}", got.len(), outcome, frames.len(), first_bad),
        );
    }
}

fn exec_sendbuf(plan: &Value, ctx: &mut Ctx) {
    let buffer = plan["buffer"].as_u64().unwrap_or(8196) as usize;
    let chan = wire::bare_channel(Role::Client, DecodingOptions::default());
    let mut sb = SendBuffer::new(buffer, 0, 0);
    let mut sink = SinkWriter::new(
        Rng::new(plan["wseed"].as_u64().unwrap_or(1)),
        plan["max_accept"].as_u64().unwrap_or(100000) as usize,
        plan["pending_rate"].as_f64().unwrap_or(0.0),
    );
    let cancel_rate = plan["cancel_rate"].as_f64().unwrap_or(0.0);
    let mut crng = Rng::new(plan["wseed"].as_u64().unwrap_or(1) ^ 0xC0FFEE);
    let mut expected: Vec<u8> = Vec::new();
    let mut seq = 1u32;
    let mut cancels = 0u64;
    let steps = plan["steps"].as_array().cloned().unwrap_or_default();
    let mut outcome = "ok";
    let mut chunk_counts = String::new();
    'outer: for (i, s) in steps.iter().enumerate() {
        ctx.step(i);
        let size = s["size"].as_u64().unwrap_or(100) as usize;
        let mut mrng = Rng::new(size as u64 * 7919 + i as u64);
        let msg: opcua::core::supported_message::SupportedMessage = wire::sized_read_request(i as u32 + 1, size, &mut mrng).into();
        // independent expectation
        let chunks = match Chunker::encode(seq, 1000 + i as u32, 0, buffer, &chan, &msg) {
            Ok(c) => c,
            Err(_) => {
                outcome = "encode-error";
                break;
            }
        };
        seq += chunks.len() as u32;
        chunk_counts.push_str(&format!("{},", chunks.len()));
        if chunks.len() > 1 {
            ctx.probe("multi_chunk_message");
        }
        for c in chunks.iter() {
            expected.extend_from_slice(&c.data);
        }
        if sb.write(1000 + i as u32, msg, &chan).is_err() {
            outcome = "write-error";
            break;
        }
        // drive exactly like TcpTransport::poll_inner does
        let mut guard = 0u64;
        loop {
            guard += 1;
            // generous bound: every byte could need its own write plus a Pending and a cancellation
            if guard > 8 * (expected.len() as u64 + 1000) {
                outcome = "stuck";
                break 'outer;
            }
            if sb.should_encode_chunks() {
                if sb.encode_next_chunk(&chan).is_err() {
                    outcome = "encode-chunk-error";
                    break 'outer;
                }
            }
            if !sb.can_read() {
                break;
            }
            let mut fut = Box::pin(sb.read_into_async(&mut sink));
            loop {
                match poll_once(fut.as_mut()) {
                    std::task::Poll::Ready(Ok(())) => break,
                    std::task::Poll::Ready(Err(_)) => {
                        outcome = "io-error";
                        break 'outer;
                    }
                    std::task::Poll::Pending => {
                        if crng.chance(cancel_rate) {
                            cancels += 1;
                            break; // drop the future: cancellation
                        }
                    }
                }
            }
        }
    }
    if sink.short_writes > 0 {
        ctx.fault("short_write");
        ctx.add("fault.short_write", sink.short_writes - 1);
    }
    if sink.pendings > 0 {
        ctx.fault("write_pending");
        ctx.add("fault.write_pending", sink.pendings - 1);
    }
    if cancels > 0 {
        ctx.fault("write_cancel");
        ctx.add("fault.write_cancel", cancels - 1);
    }
    ctx.advance(sink.writes + sink.pendings);
    ctx.log(
        &format!("sendbuf chunks={} short={} pend={} cancel={} out={}", chunk_counts, sink.short_writes.min(3), sink.pendings.min(3), cancels.min(3), outcome),
        &format!("bytes={} expected={}", sink.out.len(), expected.len()),
    );
    if outcome != "ok" {
        ctx.violate("C11", "sendbuf-error", outcome, format!("send buffer driver ended with {}", outcome));
    } else if sink.out != expected {
        let first = sink.out.iter().zip(expected.iter()).position(|(a, b)| a != b).unwrap_or(sink.out.len().min(expected.len()));
        ctx.violate(
            "C11",
            "sendbuf-bytes-differ",
            "",
            format!("sink received {} bytes, expected {} (first difference at offset {})", sink.out.len(), expected.len(), first),
        );
    }
}
