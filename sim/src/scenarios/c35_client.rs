//! C35 Every client request completes exactly once.
//!
//! Client-side L2: the real `AsyncSecureChannel` (request tasks, `TcpTransport::poll` event loop,
//! `TransportState`) against a scripted raw server. The plan schedules request submissions with
//! individual time-outs and, per request, what the server does with it: answer (single or
//! multi-chunk, possibly slower than the deadline), answer twice, answer under a request id
//! nobody issued, abort, answer with an undecodable body, or stay silent; plus a server-side or
//! client-side close at an arbitrary instant.

use crate::ctx::Ctx;
use crate::framework::{Info, Scenario, Tier};
use crate::l2;
use crate::rawsrv::{self, RawServer, SrvRecv};
use crate::rng::Rng;
use crate::wire;
use opcua::client::transport::tcp::TransportConfiguration;
use opcua::client::transport::{AsyncSecureChannel, TransportPollResult};
use opcua::core::comms::message_chunk::{MessageChunk, MessageChunkType, MessageIsFinalType};
use opcua::core::supported_message::SupportedMessage;
use opcua::crypto::SecurityPolicy;
use opcua::types::*;
use serde_json::{json, Value};
use std::collections::BTreeMap;
use std::sync::{Arc, Mutex};
use std::time::Duration;
use tokio::time::Instant;

pub struct C35;

impl Scenario for C35 {
    fn id(&self) -> &'static str {
        "C35"
    }
    fn info(&self) -> Info {
        Info {
            level: "exploration",
            exhaustive: false,
            layer: "client-side L2 (real AsyncSecureChannel + client TcpTransport event loop on paused tokio, scripted raw server peer)",
            rule: "run = transport limits (max in-flight 1..16, max pending chunks 0/3/50) and a schedule of 1-14 request submissions (virtual time, time-out 20..400 ms, response size 0..40 kB => 1-6 chunks) each with a server behaviour {answer after d ms, answer slowly chunk by chunk, answer later than the deadline, silent, answer twice, answer first under an unissued request id, abort chunk, undecodable final chunk}, plus optional server close / client close at an arbitrary instant. Oracle over the recorded history: every request completes by the end of the run (all deadlines + 1 s); Ok carries the response built for that request; BadTimeout never before its deadline and never when a complete response was delivered >1 ms before the deadline on an open transport; an abort yields BadCommunicationError; closed-class results only when the transport closed; the transport never closes without a scripted cause (so unknown / expired / duplicate responses are ignored); a request with no response and no close gets BadTimeout. non-trivial = a response raced a deadline (<5 ms), an unknown / duplicate / expired response was sent, or a close found requests pending; distinct = behaviour/outcome hash.",
            real: vec!["AsyncSecureChannel::connect_no_retry / send", "Request::send (oneshot + mpsc with send_timeout)", "client TcpTransport::poll / poll_inner / close", "TransportState::wait_for_outgoing_message / next_timeout / process_chunk / merge_chunks", "client SendBuffer", "TcpCodec, Chunker, SecureChannel (client role)"],
            stubbed: vec!["TCP socket (verif::net connector seam, in-memory duplex)", "server (scripted raw peer built from the real server-role SecureChannel / Chunker)"],
            assumptions: vec!["security policy None (secured client channels are exercised in C14's client half)", "the scripted server sends chunks of one message contiguously (sequence numbers in wire order)"],
            fault_kinds: vec!["response_after_deadline", "no_response", "duplicate_response", "unknown_request_id", "abort_chunk", "undecodable_response", "chunks_reordered", "chunk_dropped", "slow_chunks_across_deadline", "server_close", "client_close", "inflight_limit_reached", "peer_stall"],
        }
    }
    fn runs(&self, tier: Tier) -> u64 {
        if tier == Tier::Thorough {
            300_000
        } else {
            6000
        }
    }
    fn gen(&self, seed: u64, run: u64, tier: Tier) -> Value {
        let mut rng = Rng::new(crate::framework::run_seed(seed, "C35", run));
        let n = if tier == Tier::Thorough { rng.urange(1, 14) } else { rng.urange(1, 10) };
        let max_inflight = *rng.pick(&[1usize, 2, 3, 8, 16]);
        let max_pending = *rng.pick(&[0usize, 3, 50, 50]);
        let mut steps = Vec::new();
        let mut t = 0u64;
        for _ in 0..n {
            t += *rng.pick(&[0u64, 0, 1, 5, 20, 100]);
            let timeout = *rng.pick(&[20u64, 50, 100, 200, 400]);
            let kinds = ["reply", "race", "slow", "late", "never", "dup", "unknown_first", "abort", "garbage", "reorder", "drop_mid"];
            let kind = kinds[rng.weighted(&[12, 4, 4, 4, 4, 4, 4, 2, 1, 2, 1])];
            let size = *rng.pick(&[0usize, 0, 100, 9000, 20_000, 40_000]);
            let delay = match kind {
                "race" => (timeout as i64 + rng.range(-3, 3)).max(0) as u64,
                "late" => timeout + rng.urange(5, 100) as u64,
                _ => *rng.pick(&[0u64, 1, 5, 10, 30]),
            };
            steps.push(json!({"op": "submit", "at_ms": t, "timeout_ms": timeout, "kind": kind, "size": size, "delay_ms": delay, "gap_ms": if kind == "slow" { rng.urange(5, 80) } else { 0 }}));
        }
        let mut max_inflight = max_inflight;
        if rng.chance(0.1) {
            // queue pressure: more simultaneous submissions than the in-flight limit and the outgoing queue
            // take, to a server that does not answer the first ones: later requests wait for a queue slot
            // and then behind the in-flight limit while their deadlines pass
            max_inflight = *rng.pick(&[1usize, 1, 2]);
            let at = rng.below(t + 10);
            for _ in 0..rng.urange(3, 6) {
                let kind = *rng.pick(&["never", "never", "late", "reply"]);
                let timeout = *rng.pick(&[50u64, 100, 200, 400]);
                steps.push(json!({"op": "submit", "at_ms": at, "timeout_ms": timeout, "kind": kind, "size": 0, "delay_ms": if kind == "late" { timeout + 20 } else { 5 }, "gap_ms": 0}));
            }
        }
        let mut pipe = 1usize << 22;
        if rng.chance(0.15) {
            // the peer stops reading (and answering) for a while or for good; a small pipe makes
            // the client's writes block
            pipe = *rng.pick(&[4096usize, 16384, 65536]);
            let at = rng.below(t + 50);
            steps.push(json!({"op": "stall", "at_ms": at, "dur_ms": *rng.pick(&[50u64, 300, 100_000])}));
            for s in steps.iter_mut() {
                if s["op"] == "submit" && rng.chance(0.7) {
                    s["req_size"] = json!(*rng.pick(&[2000u64, 9000, 30_000]));
                }
            }
        }
        if rng.chance(0.3) {
            let mut at = rng.below(t + 300);
            let op = *rng.pick(&["close_server", "close_server", "close_client", "close_client"]);
            if op == "close_client" && rng.chance(0.5) {
                // the close races submissions made at the same instant: requests end up queued behind the
                // CloseSecureChannel request (or behind the in-flight limit) when the transport closes
                let k = rng.below(steps.len() as u64) as usize;
                at = steps[k]["at_ms"].as_u64().unwrap_or(at);
                if rng.chance(0.5) {
                    steps.push(json!({"op": "submit", "at_ms": at, "timeout_ms": 400, "kind": "never", "size": 0, "delay_ms": 0, "gap_ms": 0}));
                }
            }
            steps.push(json!({"op": op, "at_ms": at}));
            if op == "close_client" && rng.chance(0.5) {
                steps.push(json!({"op": "submit", "at_ms": at, "timeout_ms": *rng.pick(&[50u64, 400]), "kind": "reply", "size": 0, "delay_ms": 0, "gap_ms": 0}));
            }
        }
        json!({"max_inflight": max_inflight, "max_pending": max_pending, "pipe": pipe, "tseed": rng.next_u64() >> 12, "steps": steps})
    }
    fn exec(&self, plan: &Value, ctx: &mut Ctx) {
        let rt = l2::runtime(plan["tseed"].as_u64().unwrap_or(1));
        rt.block_on(run(plan, ctx));
        rawsrv::remove_connector();
    }
}

pub fn none_endpoint() -> EndpointDescription {
    EndpointDescription {
        endpoint_url: UAString::from(l2::ENDPOINT_URL),
        server: ApplicationDescription::default(),
        server_certificate: ByteString::null(),
        security_mode: MessageSecurityMode::None,
        security_policy_uri: UAString::from(SecurityPolicy::None.to_uri()),
        user_identity_tokens: Some(vec![UserTokenPolicy {
            policy_id: UAString::from("anonymous"),
            token_type: UserTokenType::Anonymous,
            issued_token_type: UAString::null(),
            issuer_endpoint_url: UAString::null(),
            security_policy_uri: UAString::null(),
        }]),
        transport_profile_uri: UAString::null(),
        security_level: 0,
    }
}

#[derive(Clone, Debug)]
struct Outcome {
    result: Result<u32, StatusCode>, // Ok(tag of the response) or the status
    at: Instant,
}

#[derive(Default)]
struct Shared {
    submit_at: BTreeMap<usize, Instant>,
    outcome: BTreeMap<usize, Outcome>,
    closed: Option<(Instant, StatusCode)>,
}

#[derive(Clone, Debug)]
enum Send {
    Reply { rid: u32, idx: usize, size: usize, gap_ms: u64 },
    /// multi-chunk reply whose chunks are sent in another order / with the middle chunk missing
    Mangled { rid: u32, idx: usize, drop_mid: bool },
    Unknown { idx: usize },
    Abort { rid: u32, idx: usize },
    Garbage { rid: u32, idx: usize },
}

fn read_request(handle_hdr: RequestHeader, idx: usize, filler: usize) -> ReadRequest {
    let mut nodes = vec![ReadValueId {
        node_id: NodeId::new(1, idx as u32),
        attribute_id: AttributeId::Value as u32,
        index_range: UAString::null(),
        data_encoding: QualifiedName::null(),
    }];
    let mut left = filler;
    while left > 0 {
        let n = left.min(3000);
        nodes.push(ReadValueId { node_id: NodeId::new(1, "f".repeat(n)), attribute_id: AttributeId::Value as u32, index_range: UAString::null(), data_encoding: QualifiedName::null() });
        left -= n;
    }
    ReadRequest { request_header: handle_hdr, max_age: 0.0, timestamps_to_return: TimestampsToReturn::Neither, nodes_to_read: Some(nodes) }
}

fn read_response(handle: u32, tag: u32, size: usize) -> SupportedMessage {
    let mut results = vec![DataValue::value_only(Variant::UInt32(tag))];
    if size > 0 {
        results.push(DataValue::value_only(Variant::ByteString(ByteString::from(vec![0x5Au8; size]))));
    }
    ReadResponse {
        response_header: rawsrv::good_header(handle),
        results: Some(results),
        diagnostic_infos: None,
    }
    .into()
}

async fn run(plan: &Value, ctx: &mut Ctx) {
    crate::hooks::follow_tokio();
    let acceptor = rawsrv::install_connector(plan["pipe"].as_u64().unwrap_or(1 << 22) as usize);
    let max_inflight = plan["max_inflight"].as_u64().unwrap_or(8) as usize;
    let max_pending = plan["max_pending"].as_u64().unwrap_or(50) as usize;
    let channel = Arc::new(AsyncSecureChannel::new(
        wire::empty_store(),
        none_endpoint().into(),
        opcua::client::retry::SessionRetryPolicy::default(),
        DecodingOptions::default(),
        false,
        Default::default(),
        TransportConfiguration {
            max_pending_incoming: max_pending,
            max_inflight,
            send_buffer_size: 65536,
            recv_buffer_size: 65536,
            max_message_size: 1 << 22,
            max_chunk_count: 64,
        },
    ));
    // the client connects while the scripted server answers HEL / OPN
    let acc2 = acceptor.clone();
    let srv_task = tokio::spawn(async move {
        let io = acc2.accept(Duration::from_secs(5)).await?;
        let mut srv = RawServer::new(io, 77);
        if srv.handshake(3_600_000).await {
            Some(srv)
        } else {
            None
        }
    });
    let mut event_loop = match channel.connect_no_retry().await {
        Ok(e) => e,
        Err(e) => {
            ctx.log("connect-failed", e.name());
            return;
        }
    };
    let mut srv = match srv_task.await {
        Ok(Some(s)) => s,
        _ => {
            ctx.log("server-handshake-failed", "");
            return;
        }
    };
    srv.chunk_size = 8196;
    let shared = Arc::new(Mutex::new(Shared::default()));
    let sh = shared.clone();
    let el_task = tokio::spawn(async move {
        loop {
            if let TransportPollResult::Closed(s) = event_loop.poll().await {
                sh.lock().unwrap().closed = Some((Instant::now(), s));
                break;
            }
        }
    });
    let t0 = Instant::now();
    let steps = plan["steps"].as_array().cloned().unwrap_or_default();
    let mut tasks = Vec::new();
    let mut end = t0 + Duration::from_millis(100);
    let mut close_server_at: Option<Instant> = None;
    let mut stall: Option<(Instant, Instant)> = None;
    let mut behaviours: BTreeMap<usize, Value> = BTreeMap::new();
    for (i, s) in steps.iter().enumerate() {
        let at = t0 + Duration::from_millis(s["at_ms"].as_u64().unwrap_or(0));
        match s["op"].as_str().unwrap_or("") {
            "submit" => {
                let timeout = Duration::from_millis(s["timeout_ms"].as_u64().unwrap_or(100));
                end = end.max(at + timeout + Duration::from_millis(s["delay_ms"].as_u64().unwrap_or(0) + 6 * s["gap_ms"].as_u64().unwrap_or(0)));
                behaviours.insert(i, s.clone());
                let filler = s["req_size"].as_u64().unwrap_or(0) as usize;
                let ch = channel.clone();
                let sh = shared.clone();
                tasks.push(tokio::spawn(async move {
                    tokio::time::sleep_until(at).await;
                    sh.lock().unwrap().submit_at.insert(i, Instant::now());
                    let req = read_request(wire::request_header(1000 + i as u32), i, filler);
                    let r = ch.send(req, timeout).await;
                    let result = match r {
                        Ok(SupportedMessage::ReadResponse(rr)) => match rr.results.as_ref().and_then(|v| v.first()).and_then(|d| d.value.clone()) {
                            Some(Variant::UInt32(tag)) => Ok(tag),
                            _ => Ok(u32::MAX),
                        },
                        Ok(_) => Ok(u32::MAX - 1),
                        Err(e) => Err(e),
                    };
                    sh.lock().unwrap().outcome.insert(i, Outcome { result, at: Instant::now() });
                }));
            }
            "close_server" => close_server_at = Some(at),
            "stall" => stall = Some((at, at + Duration::from_millis(s["dur_ms"].as_u64().unwrap_or(100)))),
            "close_client" => {
                let ch = channel.clone();
                tasks.push(tokio::spawn(async move {
                    tokio::time::sleep_until(at).await;
                    ch.close_channel().await;
                }));
            }
            _ => {}
        }
    }
    end += Duration::from_millis(1000);
    let client_close_planned = steps.iter().any(|s| s["op"] == "close_client");
    let client_close_at = steps.iter().find(|s| s["op"] == "close_client").map(|s| t0 + Duration::from_millis(s["at_ms"].as_u64().unwrap_or(0)));

    // ---- scripted server ----
    let mut sendq: BTreeMap<(Instant, u64), Send> = BTreeMap::new();
    let mut qn = 0u64;
    // per request: when the server finished writing a terminal chunk for it, and of which kind
    let mut terminal: BTreeMap<usize, (Instant, &'static str)> = BTreeMap::new();
    let mut received: BTreeMap<usize, (Instant, u32)> = BTreeMap::new();
    let mut garbage_sent_at: Option<Instant> = None;
    let mut protocol_violation_at: Option<Instant> = None;
    let mut server_closed_at: Option<Instant> = None;
    let mut chunks_of: BTreeMap<usize, usize> = BTreeMap::new();
    loop {
        let now = Instant::now();
        if now >= end {
            break;
        }
        if let Some(at) = close_server_at {
            if now >= at && srv.is_open() {
                srv.close();
                server_closed_at = Some(now);
                ctx.fault("server_close");
            }
        }
        if !srv.is_open() {
            tokio::time::sleep_until(end).await;
            break;
        }
        if let Some((from, to)) = stall {
            if now >= from && now < to {
                // the peer neither reads nor writes
                ctx.fault("peer_stall");
                tokio::time::sleep_until(to.min(end)).await;
                continue;
            }
        }
        // due sends, one message at a time
        let due = sendq.keys().next().cloned().filter(|k| k.0 <= now);
        if let Some(k) = due {
            let item = sendq.remove(&k).unwrap();
            match item {
                Send::Reply { rid, idx, size, gap_ms } => {
                    let handle = received.get(&idx).map(|r| r.1).unwrap_or(0);
                    let enc = srv.encode(rid, &read_response(handle, idx as u32, size), srv.chunk_size);
                    if enc.is_err() {
                        panic!("harness error: scripted server cannot encode its response: {:?}", enc.err());
                    }
                    if let Ok(chunks) = enc {
                        chunks_of.insert(idx, chunks.len());
                        let n = chunks.len();
                        for (ci, c) in chunks.into_iter().enumerate() {
                            if !srv.send_bytes(&c).await {
                                break;
                            }
                            if ci + 1 < n && gap_ms > 0 {
                                tokio::time::sleep(Duration::from_millis(gap_ms)).await;
                            }
                        }
                        terminal.entry(idx).or_insert((Instant::now(), "reply"));
                    }
                }
                Send::Mangled { rid, idx, drop_mid } => {
                    let handle = received.get(&idx).map(|r| r.1).unwrap_or(0);
                    if let Ok(mut chunks) = srv.encode(rid, &read_response(handle, idx as u32, 30_000), srv.chunk_size) {
                        chunks_of.insert(idx, chunks.len());
                        if drop_mid {
                            ctx.fault("chunk_dropped");
                            if chunks.len() > 2 {
                                chunks.remove(1);
                            }
                            protocol_violation_at.get_or_insert(Instant::now());
                        } else {
                            ctx.fault("chunks_reordered");
                            if chunks.len() > 2 {
                                chunks.swap(0, 1);
                            }
                            // a receiver may put them back in order or refuse the message
                            protocol_violation_at.get_or_insert(Instant::now());
                        }
                        for c in chunks {
                            if !srv.send_bytes(&c).await {
                                break;
                            }
                        }
                        terminal.entry(idx).or_insert((Instant::now(), if drop_mid { "incomplete" } else { "reordered" }));
                    }
                }
                Send::Unknown { idx } => {
                    ctx.fault("unknown_request_id");
                    let _ = srv.respond(900_000 + idx as u32, &read_response(0, 999_999, 10)).await;
                }
                Send::Abort { rid, idx } => {
                    ctx.fault("abort_chunk");
                    if let Ok(b) = srv.encode_abort(rid) {
                        srv.send_bytes(&b).await;
                        terminal.entry(idx).or_insert((Instant::now(), "abort"));
                    }
                }
                Send::Garbage { rid, idx } => {
                    ctx.fault("undecodable_response");
                    let body = vec![0xFFu8; 24];
                    if let Ok(c) = MessageChunk::new(srv.next_seq, rid, MessageChunkType::Message, MessageIsFinalType::Final, &srv.chan, &body) {
                        srv.next_seq += 1;
                        srv.send_bytes(&c.data).await;
                        terminal.entry(idx).or_insert((Instant::now(), "garbage"));
                        garbage_sent_at.get_or_insert(Instant::now());
                    }
                }
            }
            continue;
        }
        let mut wake = end;
        if let Some(k) = sendq.keys().next() {
            wake = wake.min(k.0);
        }
        if let Some(at) = close_server_at {
            if at > now {
                wake = wake.min(at);
            }
        }
        if let Some((from, _)) = stall {
            if from > now {
                wake = wake.min(from);
            }
        }
        let wait = if wake > now { wake - now } else { Duration::from_micros(0) };
        match srv.recv(wait).await {
            SrvRecv::Msg { request_id, msg, .. } => {
                let now = Instant::now();
                match msg {
                    SupportedMessage::ReadRequest(r) => {
                        let idx = r.nodes_to_read.as_ref().and_then(|v| v.first()).map(|n| match &n.node_id.identifier {
                            Identifier::Numeric(v) => *v as usize,
                            _ => usize::MAX,
                        });
                        let Some(idx) = idx else { continue };
                        let Some(b) = behaviours.get(&idx) else { continue };
                        received.insert(idx, (now, r.request_header.request_handle));
                        let delay = Duration::from_millis(b["delay_ms"].as_u64().unwrap_or(0));
                        let size = b["size"].as_u64().unwrap_or(0) as usize;
                        let gap_ms = b["gap_ms"].as_u64().unwrap_or(0);
                        let mut push = |at: Instant, s: Send| {
                            qn += 1;
                            sendq.insert((at, qn), s);
                        };
                        match b["kind"].as_str().unwrap_or("reply") {
                            "never" => ctx.fault("no_response"),
                            "late" => {
                                ctx.fault("response_after_deadline");
                                push(now + delay, Send::Reply { rid: request_id, idx, size, gap_ms: 0 });
                            }
                            "dup" => {
                                ctx.fault("duplicate_response");
                                push(now + delay, Send::Reply { rid: request_id, idx, size, gap_ms: 0 });
                                push(now + delay + Duration::from_millis(1), Send::Reply { rid: request_id, idx, size, gap_ms: 0 });
                            }
                            "unknown_first" => {
                                push(now + delay, Send::Unknown { idx });
                                push(now + delay + Duration::from_millis(1), Send::Reply { rid: request_id, idx, size, gap_ms: 0 });
                            }
                            "reorder" | "drop_mid" => push(now + delay, Send::Mangled { rid: request_id, idx, drop_mid: b["kind"] == "drop_mid" }),
                            "abort" => push(now + delay, Send::Abort { rid: request_id, idx }),
                            "garbage" => push(now + delay, Send::Garbage { rid: request_id, idx }),
                            "slow" => {
                                ctx.fault("slow_chunks_across_deadline");
                                push(now + delay, Send::Reply { rid: request_id, idx, size: size.max(20_000), gap_ms })
                            }
                            "slow_unused" => push(now + delay, Send::Reply { rid: request_id, idx, size: size.max(20_000), gap_ms }),
                            _ => push(now + delay, Send::Reply { rid: request_id, idx, size, gap_ms: 0 }),
                        }
                    }
                    SupportedMessage::CloseSecureChannelRequest(_) => {
                        ctx.probe("close_request_seen");
                    }
                    _ => {}
                }
            }
            SrvRecv::Timeout => {}
            SrvRecv::Eof => {
                tokio::time::sleep_until(end).await;
                break;
            }
            SrvRecv::Hello(_) | SrvRecv::Bad(_) => {
                ctx.log("server-saw-bad-frame", "");
                tokio::time::sleep_until(end).await;
                break;
            }
        }
    }
    // let every task observe the end of time
    tokio::time::sleep(Duration::from_millis(5)).await;
    let sh = shared.lock().unwrap();
    let closed = sh.closed;
    let ms = |t: Instant| (t - t0).as_micros() as f64 / 1000.0;
    // ---- oracle ----
    let scripted_close = server_closed_at.is_some() || garbage_sent_at.is_some() || protocol_violation_at.is_some() || client_close_planned;
    if let Some((at, status)) = closed {
        if !scripted_close {
            ctx.violate("C35", "transport-closed-without-cause", status.name(), format!("the client transport closed with {} at {:.1} ms although the server neither closed nor sent an undecodable message, and the client did not close", status.name(), ms(at)));
        }
    }
    for (idx, b) in behaviours.iter() {
        let kind = b["kind"].as_str().unwrap_or("reply").to_string();
        let timeout = Duration::from_millis(b["timeout_ms"].as_u64().unwrap_or(100));
        let Some(sub) = sh.submit_at.get(idx).cloned() else {
            continue; // scheduled after the end of the run
        };
        let deadline = sub + timeout;
        let term = terminal.get(idx).cloned();
        let out = sh.outcome.get(idx).cloned();
        let desc = format!(
            "request {} (submitted {:.1} ms, deadline {:.1} ms, server behaviour {}, {} chunk(s)){}",
            idx,
            ms(sub),
            ms(deadline),
            kind,
            chunks_of.get(idx).cloned().unwrap_or(0),
            match term {
                Some((t, k)) => format!(", server finished sending its {} at {:.1} ms", k, ms(t)),
                None => ", server sent nothing for it".to_string(),
            }
        );
        let Some(out) = out else {
            ctx.violate("C35", "request-never-completed", &kind, format!("{} had not completed {:.1} ms after the start (transport {})", desc, ms(Instant::now()), if closed.is_some() { "closed" } else { "open" }));
            ctx.log(&format!("r{}:{}>hang", idx, kind), "");
            continue;
        };
        let closed_before = |t: Instant| closed.map(|(c, _)| c <= t).unwrap_or(false);
        // racing?
        if let Some((t, _)) = term {
            let d = if t > deadline { t - deadline } else { deadline - t };
            if d < Duration::from_millis(5) {
                ctx.nontrivial = true;
                ctx.probe("response_raced_deadline");
            }
        }
        if matches!(kind.as_str(), "late" | "dup" | "unknown_first" | "never" | "abort" | "garbage" | "slow") {
            ctx.nontrivial = true;
        }
        let class;
        match out.result {
            Ok(tag) => {
                class = "ok";
                ctx.probe("completed_ok");
                if tag != *idx as u32 {
                    ctx.violate("C35", "response-delivered-to-wrong-request", "", format!("{} completed with the response built for request {}", desc, tag));
                }
                match term {
                    Some((t, "reply")) if t <= out.at => {}
                    Some((t, "reordered")) if t <= out.at => {}
                    Some((_, "incomplete")) => ctx.violate("C12", "incomplete-message-accepted", "side=client", format!("{} completed Ok although the middle chunk of its response was never delivered (sequence numbers not consecutive)", desc)),
                    _ => ctx.violate("C35", "completed-without-response", "", format!("{} completed Ok at {:.1} ms before the server had sent a complete response", desc, ms(out.at))),
                }
                if out.at > deadline + Duration::from_millis(2) && received.get(idx).map(|r| r.0 <= deadline).unwrap_or(false) {
                    ctx.violate("C35", "response-accepted-after-deadline", "", format!("{} completed Ok at {:.1} ms, after its deadline", desc, ms(out.at)));
                }
            }
            Err(StatusCode::BadTimeout) => {
                class = "timeout";
                if out.at < deadline {
                    ctx.violate("C35", "timeout-before-deadline", "", format!("{} completed with BadTimeout at {:.1} ms, before its deadline", desc, ms(out.at)));
                }
                // "a connection-closed status when the transport closes": a request that was pending when the
                // transport reported its close well before the deadline is told so then, it is not left to
                // run into its time-out (only in runs without a stalled peer: a client blocked in a write
                // need not notice the close)
                if let (Some((c, cs)), None) = (closed, stall) {
                    if sub + Duration::from_millis(1) < c && c + Duration::from_millis(20) < deadline && term.map(|(t, _)| t > c).unwrap_or(true) {
                        ctx.violate("C35", "timeout-although-transport-closed", "", format!("{} was pending when the transport closed with {} at {:.1} ms and still completed with BadTimeout at {:.1} ms", desc, cs.name(), ms(c), ms(out.at)));
                    }
                }
                // "when its deadline passes": the caller is told then, not a queueing delay later. Time is
                // virtual here, so the slack (10 ms + a quarter of the time-out) is for implementations that
                // look at deadlines periodically, not for scheduling noise.
                let timeout_ms = b["timeout_ms"].as_u64().unwrap_or(100);
                let slack = Duration::from_millis(10 + timeout_ms / 4);
                if out.at > deadline + slack {
                    ctx.violate("C35", "timeout-long-after-deadline", "", format!("{} completed with BadTimeout at {:.1} ms, {:.1} ms after its deadline (time-out {} ms)", desc, ms(out.at), ms(out.at) - ms(deadline), timeout_ms));
                }
                if let Some((t, k)) = term {
                    let max_pending_hit = max_pending > 0 && chunks_of.get(idx).cloned().unwrap_or(0) > max_pending + 1;
                    if t + Duration::from_millis(1) < deadline && !closed_before(t) && k != "garbage" && k != "incomplete" && k != "reordered" && !max_pending_hit {
                        ctx.violate("C35", "timeout-despite-response", k, format!("{} completed with BadTimeout although the {} was delivered before the deadline on an open transport", desc, k));
                    }
                }
            }
            Err(StatusCode::BadCommunicationError) if matches!(term, Some((_, "abort"))) => {
                class = "aborted";
            }
            Err(StatusCode::BadEncodingLimitsExceeded) if max_pending > 0 && chunks_of.get(idx).cloned().unwrap_or(0) > max_pending => {
                class = "too-many-chunks";
            }
            Err(e) => {
                class = "closed";
                if !e.is_bad() {
                    ctx.violate("C35", "completed-with-non-error-status", e.name(), format!("{} completed without a response and with status {}, which is neither BadTimeout nor a connection-closed status", desc, e.name()));
                }
                // closed-class result: the transport must have closed (or be closing at this very instant)
                // (the transport's own Closed report can be arbitrarily late, so a scripted cause that
                // precedes the completion is accepted as well)
                let eps = Duration::from_millis(1);
                let ok = closed.map(|(c, _)| c <= out.at + eps).unwrap_or(false)
                    || server_closed_at.map(|c| c <= out.at + eps).unwrap_or(false)
                    || garbage_sent_at.map(|c| c <= out.at + eps).unwrap_or(false)
                    || protocol_violation_at.map(|c| c <= out.at + eps).unwrap_or(false)
                    || client_close_at.map(|c| c <= out.at + eps).unwrap_or(false);
                if !ok {
                    ctx.violate("C35", "closed-status-on-open-transport", e.name(), format!("{} completed with {} at {:.1} ms while the transport was open (transport close: {})", desc, e.name(), ms(out.at), match closed { Some((c, s)) => format!("{} at {:.1} ms", s.name(), ms(c)), None => "never".into() }));
                }
            }
        }
        if closed.is_some() && class == "closed" {
            ctx.nontrivial = true;
            ctx.probe("close_found_pending_request");
        }
        ctx.log(&format!("r{}:{}>{}", idx, kind, class), &format!("done {:.1} term {}", ms(out.at), term.map(|(t, k)| format!("{} {:.1}", k, ms(t))).unwrap_or_default()));
    }
    if sh.outcome.len() >= max_inflight && behaviours.len() > max_inflight {
        ctx.fault("inflight_limit_reached");
    }
    if client_close_planned {
        ctx.fault("client_close");
        if closed.is_none() && sh.outcome.values().any(|o| o.result == Err(StatusCode::BadConnectionClosed)) {
            // observation outside C35: TransportState::close never returned (see DESIGN.md)
            ctx.probe("observation_transport_close_never_reported");
        }
    }
    drop(sh);
    el_task.abort();
    for t in tasks {
        t.abort();
    }
    ctx.advance((Instant::now() - t0).as_micros() as u64);
}
