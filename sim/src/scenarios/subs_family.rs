//! Scenarios of the subscription family (C21, C22, C24, C25, C26, C27, C40): generators; the
//! executor and oracles are in `crate::subs`.

use crate::ctx::Ctx;
use crate::framework::{Info, Scenario, Tier};
use crate::l2;
use crate::rng::Rng;
use crate::subs::World;
use serde_json::{json, Value};

pub struct Subs {
    pub id: &'static str,
}

const REAL: [&str; 7] = [
    "server::comms::tcp_transport (reader, writer and subscription timer tasks)",
    "MessageHandler + SubscriptionService + MonitoredItemService + AttributeService",
    "server::session::Session / Subscriptions / Subscription / MonitoredItem",
    "AddressSpace / Variable",
    "Chunker / SecureChannel (policy None) / TcpCodec",
    "tokio timers (paused clock, auto-advance)",
    "wall clock through the verif::clock seam (follows the paused tokio clock, plus injected jumps)",
];

fn exec_plan(plan: &Value, ctx: &mut Ctx) {
    let rt = l2::runtime(plan["tseed"].as_u64().unwrap_or(1));
    rt.block_on(async {
        let mut w = match World::new(plan, ctx).await {
            Some(w) => w,
            None => return,
        };
        let steps = plan["steps"].as_array().cloned().unwrap_or_default();
        for (i, s) in steps.iter().enumerate() {
            w.step(i, s, ctx).await;
        }
        w.drain_and_finish(ctx).await;
    });
}

fn gen_c21(rng: &mut Rng, regime: &str, tier: Tier) -> Value {
    let nvars = rng.urange(1, 3);
    let nsubs = rng.urange(1, 3);
    let mut steps = Vec::new();
    let mut sub_items: Vec<usize> = Vec::new();
    for k in 0..nsubs {
        let ka = rng.urange(1, 10);
        steps.push(json!({"op": "create_sub", "pi": *rng.pick(&[100.0, 100.0, 200.0, 300.0, 500.0]), "ka": ka, "lt": rng.urange(3 * ka, 3 * ka + 30), "prio": rng.below(200), "enabled": true}));
        let ni = rng.urange(1, 3);
        for _ in 0..ni {
            steps.push(json!({"op": "create_item", "sub": k, "var": rng.below(nvars as u64), "q": 200, "sampling": *rng.pick(&[-1.0, 100.0, 0.0]), "discard_oldest": true}));
        }
        sub_items.push(ni);
    }
    let rounds = if tier == Tier::Thorough { rng.urange(10, 60) } else { rng.urange(8, 30) };
    // fault mix (swarm): windows without publish requests, bursts, lifecycle churn, jitter
    let p_publish = *rng.pick(&[0.2, 0.5, 0.8, 1.0]);
    let p_write = *rng.pick(&[0.3, 0.7, 1.0]);
    let p_life = *rng.pick(&[0.0, 0.0, 0.05, 0.15]);
    let p_jitter = if regime == "c26" { 0.1 } else { *rng.pick(&[0.0, 0.0, 0.0, 0.03]) };
    let mut starve = 0usize;
    for _ in 0..rounds {
        for v in 0..nvars {
            if rng.chance(p_write) {
                steps.push(json!({"op": "write", "var": v}));
            }
        }
        if starve > 0 {
            starve -= 1;
        } else if rng.chance(0.08) {
            starve = rng.urange(1, 8); // a window with no publish requests at all
        } else if rng.chance(p_publish) {
            let mut p = json!({"op": "publish", "n": rng.urange(1, 3), "ack": *rng.pick(&["all", "all", "all", "none"])});
            if regime == "c21" && rng.chance(0.12) {
                // requests with a short timeout hint: several of them expire in the same server pass
                p["hint"] = json!(*rng.pick(&[150u64, 300, 1000]));
                p["n"] = json!(rng.urange(2, 3));
            }
            if regime == "c40" {
                p["ack"] = json!(*rng.pick(&["all", "all", "none", "newest", "newest", "dup", "unknown", "badsub", "twice"]));
            }
            if regime == "c26" {
                p["ts"] = json!(*rng.pick(&["now", "now", "past", "future", "null", "min", "max"]));
                p["ts_ms"] = json!(*rng.pick(&[1u64, 500, 29_000, 31_000, 3_600_000, 315_360_000_000]));
                p["hint"] = json!(*rng.pick(&[0u64, 0, 1, 150, 1000, 40_000]));
            }
            steps.push(p);
        }
        if regime == "c40" && rng.chance(0.35) {
            steps.push(json!({"op": "republish", "sub": rng.below(nsubs as u64), "which": *rng.pick(&["last", "last", "first", "acked", "unknown"])}));
        }
        if regime == "c26" && rng.chance(0.25) {
            let mag = *rng.pick(&[1i64, 50, 99, 100, 101, 1000, 29_999, 30_001, 3_600_000, 315_360_000_000]);
            steps.push(json!({"op": "clock_jump", "ms": if rng.chance(0.5) { -mag } else { mag }}));
        }
        if rng.chance(p_life) {
            match rng.below(6) {
                0 => steps.push(json!({"op": "delete_item", "sub": rng.below(3), "item": rng.below(3)})),
                1 => steps.push(json!({"op": "create_item", "sub": rng.below(3), "var": rng.below(nvars as u64), "q": 200, "sampling": -1.0})),
                2 => steps.push(json!({"op": "delete_sub", "sub": rng.below(3)})),
                3 => {
                    let ka = rng.urange(1, 6);
                    steps.push(json!({"op": "create_sub", "pi": 100.0, "ka": ka, "lt": 3 * ka + 10, "prio": rng.below(200), "enabled": true}));
                }
                4 => steps.push(json!({"op": "set_publishing", "sub": rng.below(3), "enabled": rng.chance(0.5)})),
                _ => steps.push(json!({"op": "modify_item", "sub": rng.below(3), "item": rng.below(3), "q": rng.urange(100, 300)})),
            }
        }
        if rng.chance(p_jitter) {
            steps.push(json!({"op": "sleep_ms", "ms": rng.urange(1, 99)}));
        }
        steps.push(json!({"op": "tick", "n": 1}));
    }
    json!({"regime": regime, "vars": nvars, "max_queue": 1000, "second_conn": rng.chance(0.15), "tseed": rng.next_u64() >> 12, "steps": steps})
}

fn gen_c24(rng: &mut Rng, tier: Tier) -> Value {
    let mut steps = Vec::new();
    let pi = *rng.pick(&[200.0, 300.0, 400.0, 600.0, 1000.0]);
    steps.push(json!({"op": "create_sub", "pi": pi, "ka": 5, "lt": 100, "prio": 1, "enabled": true}));
    let ni = rng.urange(1, 2);
    for i in 0..ni {
        steps.push(json!({"op": "create_item", "sub": 0, "var": i, "q": rng.urange(1, 12), "sampling": 100.0, "discard_oldest": rng.chance(0.5)}));
    }
    steps.push(json!({"op": "tick", "n": 1}));
    let rounds = if tier == Tier::Thorough { rng.urange(20, 80) } else { rng.urange(15, 45) };
    let p_modify = *rng.pick(&[0.0, 0.05, 0.1, 0.2]);
    for _ in 0..rounds {
        for i in 0..ni {
            steps.push(json!({"op": "write", "var": i}));
        }
        if rng.chance(p_modify) {
            let mut m = json!({"op": "modify_item", "sub": 0, "item": rng.below(ni as u64), "q": rng.urange(1, 12), "discard_oldest": rng.chance(0.5)});
            if rng.chance(0.2) {
                // a modification the server has to refuse: nothing about the queue may change
                m["bad_filter"] = json!(*rng.pick(&["percent", "negative", "unknown"]));
            }
            steps.push(m);
        }
        steps.push(json!({"op": "tick", "n": 1}));
    }
    json!({"regime": "c24", "vars": ni, "max_queue": 1000, "auto_publish": 2, "tseed": rng.next_u64() >> 12, "steps": steps})
}

fn gen_c25(rng: &mut Rng, tier: Tier) -> Value {
    let mut steps = Vec::new();
    steps.push(json!({"op": "create_sub", "pi": 100.0, "ka": 5, "lt": 100, "prio": 1, "enabled": true}));
    let ni = rng.urange(1, 3);
    for i in 0..ni {
        let dtype = *rng.pick(&[0u64, 0, 1, 1, 2]);
        let filter = json!({"trigger": rng.below(3), "deadband_type": dtype, "deadband": *rng.pick(&[0.0, 0.5, 1.0, 2.0, 3.0, 10.0])});
        steps.push(json!({"op": "create_item", "sub": 0, "var": i, "q": 500, "sampling": 100.0, "filter": filter, "ttr": *rng.pick(&["both", "both", "neither", "source", "server"])}));
    }
    steps.push(json!({"op": "tick", "n": 2}));
    let rounds = if tier == Tier::Thorough { rng.urange(15, 60) } else { rng.urange(10, 30) };
    for _ in 0..rounds {
        for i in 0..ni {
            if rng.chance(0.75) {
                let delta = *rng.pick(&[0i64, 0, 1, -1, 2, -2, 3, 5, -7, 1_000_000]);
                let status = *rng.pick(&[0u64, 0, 0, 0x4000_0000, 0x8000_0000]);
                steps.push(json!({"op": "write", "var": i, "via": "direct", "delta": delta, "status": status}));
            }
        }
        if rng.chance(0.06) {
            steps.push(json!({"op": "resend_data", "sub": 0}));
        }
        if rng.chance(0.04) {
            steps.push(json!({"op": "modify_item", "sub": 0, "item": rng.below(ni as u64), "q": 500, "bad_filter": *rng.pick(&["percent", "negative", "unknown"])}));
        }
        steps.push(json!({"op": "tick", "n": 1}));
    }
    json!({"regime": "c25", "vars": ni, "float_vars": true, "max_queue": 1000, "auto_publish": 2, "tseed": rng.next_u64() >> 12, "steps": steps})
}

/// priorities over the whole u8 range, boundary values more often
fn pick_prio(rng: &mut Rng) -> u64 {
    match rng.below(8) {
        0 => 0,
        1 => 255,
        2 => [1, 127, 128, 254][rng.below(4) as usize],
        _ => rng.below(256),
    }
}

fn gen_c27(rng: &mut Rng, tier: Tier) -> Value {
    let mut steps = Vec::new();
    let nsubs = rng.urange(2, 4);
    let mut prios: Vec<u64> = Vec::new();
    while prios.len() < nsubs {
        let p = pick_prio(rng);
        if !prios.contains(&p) {
            prios.push(p);
        }
    }
    for k in 0..nsubs {
        steps.push(json!({"op": "create_sub", "pi": 100.0, "ka": 10, "lt": 200, "prio": prios[k], "enabled": true}));
        steps.push(json!({"op": "create_item", "sub": k, "var": 0, "q": 50, "sampling": -1.0}));
    }
    // let every subscription send its initial value with plenty of requests
    steps.push(json!({"op": "publish", "n": 2 * nsubs, "ack": "all"}));
    steps.push(json!({"op": "tick", "n": 3}));
    let rounds = if tier == Tier::Thorough { rng.urange(10, 40) } else { rng.urange(6, 20) };
    for _ in 0..rounds {
        if rng.chance(0.12) {
            // a priority change (to a value no other subscription has); boundary values included
            let k = rng.urange(0, nsubs - 1);
            let mut p = pick_prio(rng);
            while prios.iter().enumerate().any(|(j, q)| j != k && *q == p) {
                p = pick_prio(rng);
            }
            prios[k] = p;
            steps.push(json!({"op": "modify_sub", "sub": k, "prio": p}));
        }
        steps.push(json!({"op": "write", "var": 0}));
        // fewer requests than ready notifications (sometimes as many, sometimes none)
        let n = match rng.below(6) {
            0 => 0,
            1 => nsubs,
            _ => rng.urange(1, nsubs - 1),
        };
        if n > 0 {
            steps.push(json!({"op": "publish", "n": n, "ack": "all"}));
        }
        steps.push(json!({"op": "tick", "n": 1}));
    }
    json!({"regime": "c27", "vars": 1, "max_queue": 1000, "tseed": rng.next_u64() >> 12, "steps": steps})
}

/// C22 is an enumerated grid plus seeded variations.
fn c22_grid() -> Vec<Value> {
    let mut v = Vec::new();
    for ka in 1..=12u64 {
        for lt_kind in 0..4 {
            let lt = match lt_kind {
                0 => 3 * ka,
                1 => 3 * ka + 1,
                2 => 3 * ka + 5,
                _ => 40.max(3 * ka),
            };
            for enabled in [true, false] {
                // requests always available
                let n_ticks = (3 * (ka + 1) + 3).max(lt + 5);
                v.push(json!({"regime": "c22-always", "vars": 1, "auto_publish": 2, "tseed": ka * 1000 + lt,
                    "steps": [{"op": "create_sub", "pi": 100.0, "ka": ka, "lt": lt, "prio": 0, "enabled": enabled}, {"op": "tick", "n": n_ticks}]}));
                // no requests at all, probe at T
                for t in [1, lt / 2, lt.saturating_sub(2).max(1), lt + 2, lt + 5] {
                    let expect = if t + 2 <= lt { "not_expired" } else if t >= lt + 2 { "expired" } else { "" };
                    if expect.is_empty() {
                        continue;
                    }
                    v.push(json!({"regime": "c22-never", "vars": 1, "tseed": ka * 1000 + lt + t,
                        "steps": [{"op": "create_sub", "pi": 100.0, "ka": ka, "lt": lt, "prio": 0, "enabled": enabled}, {"op": "tick", "n": t},
                                  {"op": "publish", "n": 1, "ack": "none"}, {"op": "tick", "n": 2}, {"op": "check_expiry", "sub": 0, "expect": expect}]}));
                }
                // intermittent: one request every k-th interval, k below the lifetime: never expires
                for k in [2u64, 3] {
                    let mut steps = vec![json!({"op": "create_sub", "pi": 100.0, "ka": ka, "lt": lt, "prio": 0, "enabled": enabled})];
                    for _ in 0..((lt + 6) / k + 2) {
                        steps.push(json!({"op": "publish", "n": 1, "ack": "all"}));
                        steps.push(json!({"op": "tick", "n": k}));
                    }
                    steps.push(json!({"op": "check_expiry", "sub": 0, "expect": "not_expired"}));
                    v.push(json!({"regime": "c22-inter", "vars": 1, "tseed": ka * 1000 + lt + k, "steps": steps}));
                }
            }
        }
    }
    v
}

impl Scenario for Subs {
    fn id(&self) -> &'static str {
        self.id
    }
    fn info(&self) -> Info {
        let (level, rule, faults): (&'static str, &'static str, Vec<&'static str>) = match self.id {
            "C21" => ("exploration", "run = seeded history of writes / timer ticks / publish bursts and starvation windows / acknowledgements / item and subscription create-delete on 1-3 subscriptions x 1-3 items, ending in a fault-free drain; oracles: request pairing and oldest-first, strictly increasing sequence numbers, per-item delivered values = written values (order, no duplicates, completeness in the sound regime). non-trivial = history contains a starvation window, a burst, lifecycle churn or jitter; distinct = hash of (op, outcome class) sequence.", vec!["publish_starvation", "publish_burst", "lifecycle_churn", "sleep_offphase"]),
            "C22" => ("fault_enumeration", "enumerated grid: keep-alive count 1..12 x lifetime {3k,3k+1,3k+5,40} x publishing {enabled,disabled} x requests {always available, never with probe points before/after the lifetime, every 2nd / 3rd interval}; oracle: first keep-alive within the first interval (+1 slack), gap <= max keep-alive + 1 intervals, never expires with requests; without requests BadTimeout status change not before lifetime-1 and by lifetime+1 intervals. non-trivial = every run (each has a timer history of >= 3 intervals); distinct = distinct (configuration, outcome) hash.", vec!["no_publish_requests", "intermittent_publish_requests"]),
            "C24" => ("exploration", "run = one subscription (interval 200..1000 ms) with 1-2 items sampled every 100 ms, queue sizes 1..12, both discard policies, one write per tick, publish requests always available, ModifyMonitoredItems growing/shrinking the queue at random points; oracle: bounded-queue reference model per notification (size bound, order, which entries survive, overflow info bit), modify never fails. non-trivial = an overflow or a resize happened; distinct = op/outcome hash.", vec!["queue_overflow", "queue_resize"]),
            "C25" => ("exploration", "run = items with data change filters (trigger x deadband none/absolute/percent x value) over Double variables; an application actor sets value/status/timestamps directly (delta 0, +-small, huge; Good/Uncertain/Bad); oracle: last-reported model per filter; an accepted filter must be able to report. non-trivial = history contains a status-only, timestamp-only or sub-deadband change; distinct = op/outcome hash.", vec!["status_only_change", "timestamp_only_change", "sub_deadband_change"]),
            "C26" => ("exploration", "run = C21-style history plus request-header timestamps {now, past, future, null, min, max}, timeout hints, wall-clock jumps of +-(1 ms .. 10 y) between steps and off-phase sleeps; oracle: no panic in any server task; BadTimeout only after the timeout elapsed since the request's timestamp. non-trivial = a clock fault or odd timestamp fired; distinct = op/outcome hash.", vec!["client_timestamp", "clock_jump_forward", "clock_jump_backward", "sleep_offphase"]),
            "C27" => ("exploration", "run = 2-4 subscriptions with distinct priorities (0..=255, boundary values favoured, changed now and then by ModifySubscription), all with a notification ready at every interval, and fewer publish requests than ready notifications; oracle: responses of one timer tick are in descending priority starting with the highest ready priority. non-trivial = a tick with fewer requests than ready notifications; distinct = op/outcome hash.", vec!["scarce_publish_requests", "subscription_priority_modified"]),
            _ => ("exploration", "run = C21-style history plus Republish {last, first, acknowledged, unknown} and acknowledgements {valid, newest only, duplicate in a later request, duplicate inside one request, unknown sequence, unknown subscription} and subscription creation / deletion / expiry; oracle: retained-set model (republished == original, not available after a Good acknowledgement, unknown or repeated acknowledgement -> BadSequenceNumberUnknown, a retained message is available while the retransmission queue cannot have been over 4 x subscriptions, counting unread responses and subscriptions created, deleted or possibly expired since the last read). non-trivial = a republish or non-plain acknowledgement happened; distinct = op/outcome hash.", vec!["duplicate_ack", "unknown_ack", "republish_after_ack", "subscription_deleted"]),
        };
        Info {
            level,
            exhaustive: false,
            layer: "L2 (real server tasks on a paused seeded tokio runtime; raw scripted client)",
            rule,
            real: REAL.to_vec(),
            stubbed: vec!["TCP socket (in-memory duplex via verif::net)", "listener/accept loop"],
            assumptions: vec!["security policy None", "one connection, one session", "server timer 100 ms; client acts at phase +50 ms so ticks and client actions never tie"],
            fault_kinds: faults,
        }
    }
    fn runs(&self, tier: Tier) -> u64 {
        let t = tier == Tier::Thorough;
        match self.id {
            "C22" => c22_grid().len() as u64 + if t { 4000 } else { 300 },
            "C21" => if t { 60_000 } else { 3000 },
            "C24" => if t { 40_000 } else { 2500 },
            "C25" => if t { 40_000 } else { 2500 },
            "C26" => if t { 60_000 } else { 3000 },
            "C27" => if t { 30_000 } else { 2000 },
            _ => if t { 60_000 } else { 3000 },
        }
    }
    fn gen(&self, seed: u64, run: u64, tier: Tier) -> Value {
        let mut rng = Rng::new(crate::framework::run_seed(seed, self.id, run));
        match self.id {
            "C21" => gen_c21(&mut rng, "c21", tier),
            "C22" => {
                let grid = c22_grid();
                if (run as usize) < grid.len() {
                    grid[run as usize].clone()
                } else {
                    // seeded variations: other intervals, modify in the middle
                    let ka = rng.urange(1, 12) as u64;
                    let lt = rng.urange(3 * ka as usize, 3 * ka as usize + 20) as u64;
                    let pi = *rng.pick(&[100.0, 200.0, 300.0]);
                    let mult = (pi / 100.0) as u64;
                    if rng.chance(0.25) {
                        // requests for a while (the subscription reaches its keep-alive state), then never again
                        let warm = mult * (2 * ka + 3);
                        json!({"regime": "c22-never", "vars": 1, "tseed": rng.next_u64() >> 12,
                            "steps": [{"op": "create_sub", "pi": pi, "ka": ka, "lt": lt, "prio": 0, "enabled": rng.chance(0.5)},
                                      {"op": "publish", "n": 2, "ack": "all"}, {"op": "tick", "n": warm},
                                      {"op": "tick", "n": mult * (lt + 5 + rng.below(4))},
                                      {"op": "publish", "n": 1, "ack": "none"}, {"op": "tick", "n": 2}, {"op": "check_expiry", "sub": 0, "expect": "expired"}]})
                    } else if rng.chance(0.5) {
                        json!({"regime": "c22-always", "vars": 1, "auto_publish": rng.urange(1, 3), "tseed": rng.next_u64() >> 12,
                            "steps": [{"op": "create_sub", "pi": pi, "ka": ka, "lt": lt, "prio": 0, "enabled": rng.chance(0.5)}, {"op": "tick", "n": mult * (3 * (ka + 1) + 3).max(lt + 5)}]})
                    } else {
                        let t = if rng.chance(0.5) { rng.urange(1, (lt as usize).saturating_sub(2).max(1)) as u64 } else { lt + 2 + rng.below(6) };
                        let expect = if t + 2 <= lt { "not_expired" } else { "expired" };
                        json!({"regime": "c22-never", "vars": 1, "tseed": rng.next_u64() >> 12,
                            "steps": [{"op": "create_sub", "pi": pi, "ka": ka, "lt": lt, "prio": 0, "enabled": rng.chance(0.5)}, {"op": "tick", "n": mult * t},
                                      {"op": "publish", "n": 1, "ack": "none"}, {"op": "tick", "n": 2}, {"op": "check_expiry", "sub": 0, "expect": expect}]})
                    }
                }
            }
            "C24" => gen_c24(&mut rng, tier),
            "C25" => gen_c25(&mut rng, tier),
            "C26" => gen_c21(&mut rng, "c26", tier),
            "C27" => gen_c27(&mut rng, tier),
            _ => gen_c21(&mut rng, "c40", tier),
        }
    }
    fn exec(&self, plan: &Value, ctx: &mut Ctx) {
        exec_plan(plan, ctx)
    }
    /// C26 states that subscription / monitored item / publish-queue processing never panics;
    /// C24 states the same for queue resizing.
    fn panic_property(&self) -> &'static str {
        if self.id == "C24" {
            "C24"
        } else {
            "C26"
        }
    }
    fn simplify(&self, plan: &Value) -> Vec<Value> {
        // merge consecutive tick steps / shorten tick runs
        let mut out = Vec::new();
        if let Some(steps) = plan["steps"].as_array() {
            for i in 0..steps.len() {
                if steps[i]["op"] == "tick" {
                    let n = steps[i]["n"].as_u64().unwrap_or(1);
                    if n > 1 {
                        let mut p = plan.clone();
                        p["steps"][i]["n"] = json!(n / 2);
                        out.push(p);
                        let mut p = plan.clone();
                        p["steps"][i]["n"] = json!(n - 1);
                        out.push(p);
                    }
                }
            }
        }
        out
    }
}
