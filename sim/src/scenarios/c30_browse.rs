//! C30 Browsing in pages returns the full result exactly once.
//!
//! L2: one or two sessions browse a generated subtree (and a few standard nodes) in pages,
//! continue with BrowseNext, release continuation points, and modify the address space in
//! between; up to 25 continuation points are kept outstanding.

use crate::ctx::Ctx;
use crate::framework::{Info, Scenario, Tier};
use crate::l2::{self, Conn, Recv, ServerSpec};
use crate::rng::Rng;
use opcua::core::supported_message::SupportedMessage;
use opcua::server::address_space::object::ObjectBuilder;
use opcua::server::address_space::variable::VariableBuilder;
use opcua::types::*;
use serde_json::{json, Value};

pub struct C30;

#[derive(Clone)]
struct Cp {
    id: ByteString,
    /// what is still expected after this point, in order
    rest: Vec<String>,
    page: u32,
    /// session index that owns it
    sess: usize,
    /// serial number of address-space modifications when it was created
    epoch: u64,
    state: &'static str, // live | used | released
    order: u64,
}

fn refdesc_key(r: &ReferenceDescription) -> String {
    format!("{}|{}|{}|{:?}|{}", r.node_id.node_id, r.reference_type_id, r.is_forward, r.node_class, r.browse_name.name)
}

fn browse_desc(node: &NodeId, s: &Value) -> BrowseDescription {
    let dir = match s["dir"].as_u64().unwrap_or(0) % 3 {
        0 => BrowseDirection::Forward,
        1 => BrowseDirection::Inverse,
        _ => BrowseDirection::Both,
    };
    let (rt, sub): (NodeId, bool) = match s["reftype"].as_u64().unwrap_or(0) % 4 {
        0 => (NodeId::null(), true),
        1 => (ReferenceTypeId::HierarchicalReferences.into(), true),
        2 => (ReferenceTypeId::Organizes.into(), false),
        _ => (ReferenceTypeId::HasComponent.into(), true),
    };
    let mask = match s["class_mask"].as_u64().unwrap_or(0) % 4 {
        0 => 0,
        1 => 1, // Object
        2 => 2, // Variable
        _ => 3,
    };
    BrowseDescription {
        node_id: node.clone(),
        browse_direction: dir,
        reference_type_id: rt,
        include_subtypes: sub,
        node_class_mask: mask,
        result_mask: 0x3f,
    }
}

async fn browse(c: &mut Conn, desc: BrowseDescription, max: u32) -> Option<BrowseResult> {
    let req: SupportedMessage = BrowseRequest {
        request_header: c.header(),
        view: ViewDescription {
            view_id: NodeId::null(),
            timestamp: DateTime::null(),
            view_version: 0,
        },
        requested_max_references_per_node: max,
        nodes_to_browse: Some(vec![desc]),
    }
    .into();
    match c.call(req).await {
        Recv::Msg(_, SupportedMessage::BrowseResponse(r)) => r.results.and_then(|v| v.into_iter().next()),
        _ => None,
    }
}

async fn browse_next(c: &mut Conn, id: &ByteString, release: bool) -> Option<Option<BrowseResult>> {
    let req: SupportedMessage = BrowseNextRequest {
        request_header: c.header(),
        release_continuation_points: release,
        continuation_points: Some(vec![id.clone()]),
    }
    .into();
    match c.call(req).await {
        Recv::Msg(_, SupportedMessage::BrowseNextResponse(r)) => Some(r.results.and_then(|v| v.into_iter().next())),
        _ => None,
    }
}

impl Scenario for C30 {
    fn id(&self) -> &'static str {
        "C30"
    }
    fn info(&self) -> Info {
        Info {
            level: "exploration",
            exhaustive: false,
            layer: "L2 (real server tasks, raw clients)",
            rule: "run = generated parent node with 3-40 children (objects and variables, Organizes / HasComponent, plus inverse references) and a seeded history of Browse (direction x reference-type filter x node-class mask x page size 1..N), BrowseNext, release, reuse of consumed points and AddNodes / DeleteNodes / AddReferences / DeleteReferences from the same or a second session, with up to 25 continuation points outstanding. Oracle: pages concatenated == unpaged Browse taken in the same state; a point works once; invalid after release or after any address-space change; at most the configured number (20) of points per session stay valid. non-trivial = a continuation point was used after a modification, a release, a reuse or an overflow of the per-session bound; distinct = op/outcome hash.",
            real: vec!["ViewService (browse, browse_next)", "BrowseContinuationPoint", "Session continuation point list", "NodeManagementService (modifications)", "AddressSpace / References", "server transport tasks", "wall clock via verif::clock (strictly increasing, so last_modified timestamps never tie)"],
            stubbed: vec!["TCP socket"],
            assumptions: vec!["nodes have fewer than 255 references, so an unlimited Browse is a single page"],
            fault_kinds: vec!["modification_with_points_outstanding", "point_released", "point_reused", "more_points_than_bound"],
        }
    }
    fn runs(&self, tier: Tier) -> u64 {
        if tier == Tier::Thorough {
            40_000
        } else {
            2000
        }
    }
    fn gen(&self, seed: u64, run: u64, tier: Tier) -> Value {
        let mut rng = Rng::new(crate::framework::run_seed(seed, "C30", run));
        let children = rng.urange(3, 40);
        let len = if tier == Tier::Thorough { rng.urange(5, 60) } else { rng.urange(4, 30) };
        let many_points = rng.chance(0.15);
        let mut steps = Vec::new();
        if rng.chance(0.1) {
            // dedicated: more outstanding points than the per-session bound, then use the oldest ones
            let n = rng.urange(21, 27);
            for _ in 0..n {
                steps.push(json!({"op": "browse", "node": 0, "dir": 0, "reftype": 0, "class_mask": 0, "page": rng.urange(1, 2), "sess": 0}));
            }
            steps.push(json!({"op": "next", "which": 0, "sess": 0}));
            steps.push(json!({"op": "next", "which": 1, "sess": 0}));
            steps.push(json!({"op": "next", "which": n - 1, "sess": 0}));
            return json!({"children": rng.urange(3, 40), "sessions": 1, "tseed": rng.next_u64() >> 12, "steps": steps});
        }
        for _ in 0..len {
            let sess = rng.below(2);
            match rng.below(20) {
                0..=6 => steps.push(json!({"op": "browse", "node": rng.below(4), "dir": rng.below(3), "reftype": rng.below(4), "class_mask": rng.below(4), "page": rng.urange(1, 12), "sess": sess})),
                7..=12 => steps.push(json!({"op": "next", "which": rng.below(30), "sess": sess})),
                13 => steps.push(json!({"op": "release", "which": rng.below(30), "sess": sess})),
                14 => steps.push(json!({"op": "reuse", "which": rng.below(30), "sess": sess})),
                15 => steps.push(json!({"op": "finish", "which": rng.below(30), "sess": sess})),
                16 => steps.push(json!({"op": "add_node", "k": rng.below(50), "sess": sess})),
                17 => steps.push(json!({"op": "del_node", "k": rng.below(40), "a": rng.below(40), "target_refs": rng.chance(0.6), "sess": sess})),
                18 => steps.push(json!({"op": "add_ref", "a": rng.below(40), "b": rng.below(40), "sess": sess})),
                _ => steps.push(json!({"op": "del_ref", "a": rng.below(40), "b": rng.below(40), "sess": sess})),
            }
            if many_points && rng.chance(0.6) {
                steps.push(json!({"op": "browse", "node": 0, "dir": 0, "reftype": 0, "class_mask": 0, "page": 1, "sess": 0}));
            }
        }
        json!({"children": children, "sessions": rng.urange(1, 2), "tseed": rng.next_u64() >> 12, "steps": steps})
    }

    fn exec(&self, plan: &Value, ctx: &mut Ctx) {
        let rt = l2::runtime(plan["tseed"].as_u64().unwrap_or(1));
        rt.block_on(run(plan, ctx));
    }
    fn panic_property(&self) -> &'static str {
        "C33"
    }
}

async fn run(plan: &Value, ctx: &mut Ctx) {
    crate::hooks::follow_tokio();
    let server = l2::build_server(&ServerSpec::default());
    let nchildren = plan["children"].as_u64().unwrap_or(5);
    let ns;
    let parent;
    let mut children: Vec<NodeId> = Vec::new();
    {
        let aspace = server.address_space();
        let mut a = aspace.write();
        ns = a.register_namespace("urn:sim:browse").unwrap_or(2);
        parent = NodeId::new(ns, "parent");
        ObjectBuilder::new(&parent, "parent", "parent").organized_by(ObjectId::ObjectsFolder).insert(&mut a);
        for i in 0..nchildren {
            let n = NodeId::new(ns, format!("c{}", i));
            if i % 3 == 0 {
                VariableBuilder::new(&n, format!("c{}", i), format!("c{}", i)).data_type(DataTypeId::Int32).value(i as i32).component_of(parent.clone()).insert(&mut a);
            } else if i % 3 == 1 {
                ObjectBuilder::new(&n, format!("c{}", i), format!("c{}", i)).organized_by(parent.clone()).insert(&mut a);
            } else {
                ObjectBuilder::new(&n, format!("c{}", i), format!("c{}", i)).component_of(parent.clone()).insert(&mut a);
                // an inverse reference: the child also organizes the parent's sibling space
                a.insert_reference(&n, &parent, ReferenceTypeId::Organizes);
            }
            children.push(n);
        }
    }
    let nsess = plan["sessions"].as_u64().unwrap_or(1).max(1);
    let mut conns = Vec::new();
    for s in 0..nsess {
        let mut c = Conn::connect(&server, 100.0, 1 << 22, 54000 + s as u16);
        if !c.handshake(opcua::crypto::SecurityPolicy::None, MessageSecurityMode::None, 2048).await {
            return;
        }
        conns.push(c);
    }
    let browse_targets: Vec<NodeId> = vec![parent.clone(), ObjectId::ObjectsFolder.into(), ObjectId::Server.into(), children[0].clone()];
    let mut cps: Vec<Cp> = Vec::new();
    let mut epoch: u64 = 0;
    let mut order: u64 = 0;
    const MAX_CP: usize = 20; // constants::MAX_BROWSE_CONTINUATION_POINTS
    let steps = plan["steps"].as_array().cloned().unwrap_or_default();
    for (i, s) in steps.iter().enumerate() {
        ctx.step(i);
        let op = s["op"].as_str().unwrap_or("");
        let si = (s["sess"].as_u64().unwrap_or(0) as usize) % conns.len();
        if !conns[si].is_open() {
            break;
        }
        match op {
            "browse" => {
                let node = browse_targets[(s["node"].as_u64().unwrap_or(0) as usize) % browse_targets.len()].clone();
                let page = s["page"].as_u64().unwrap_or(3) as u32;
                let desc = browse_desc(&node, s);
                // unpaged reference taken in the same state
                let full = browse(&mut conns[si], desc.clone(), 0).await;
                let first = browse(&mut conns[si], desc, page).await;
                if let (Some(full), Some(first)) = (full, first) {
                    if !full.continuation_point.is_null() {
                        // more than 255 references: outside the stated assumption; release and skip
                        let _ = browse_next(&mut conns[si], &full.continuation_point, true).await;
                        let _ = browse_next(&mut conns[si], &first.continuation_point, true).await;
                        continue;
                    }
                    let all: Vec<String> = full.references.unwrap_or_default().iter().map(refdesc_key).collect();
                    let got: Vec<String> = first.references.unwrap_or_default().iter().map(refdesc_key).collect();
                    let mut dup = all.clone();
                    dup.sort();
                    dup.dedup();
                    if dup.len() != all.len() {
                        ctx.violate("C30", "duplicate-in-unpaged-result", "", format!("unlimited Browse of {} returns a reference twice", node));
                    }
                    let n = got.len().min(all.len());
                    if got[..] != all[..n] || got.len() > page as usize {
                        ctx.violate("C30", "first-page-differs", "", format!("first page ({} refs, page size {}) is not the prefix of the unpaged result ({} refs)", got.len(), page, all.len()));
                    }
                    if first.continuation_point.is_null() {
                        if got.len() != all.len() {
                            ctx.violate("C30", "result-truncated-without-point", "", format!("page of {} of {} references came without a continuation point", got.len(), all.len()));
                        }
                    } else {
                        order += 1;
                        cps.push(Cp {
                            id: first.continuation_point.clone(),
                            rest: all[n..].to_vec(),
                            page,
                            sess: si,
                            epoch,
                            state: "live",
                            order,
                        });
                    }
                    ctx.log(&format!("browse>{}", if first.continuation_point.is_null() { "complete" } else { "cp" }), &format!("{}/{}", got.len(), all.len()));
                }
            }
            "next" | "finish" | "reuse" | "release" => {
                if cps.is_empty() {
                    continue;
                }
                let idx = (s["which"].as_u64().unwrap_or(0) as usize) % cps.len();
                let cp = cps[idx].clone();
                if cp.sess != si {
                    continue; // points belong to one session; using them from another is C19's business
                }
                if op == "reuse" && cp.state == "live" {
                    continue;
                }
                if op != "reuse" && cp.state != "live" {
                    continue;
                }
                if op == "release" {
                    let _ = browse_next(&mut conns[si], &cp.id, true).await;
                    cps[idx].state = "released";
                    ctx.log("release", "");
                    continue;
                }
                // how many newer points of this session exist (the session keeps at most MAX_CP)
                // newer points of this session that the server still holds (consumed / released ones are gone)
                let live_newer = cps.iter().filter(|c| c.sess == si && c.order > cp.order && c.state == "live" && c.epoch == epoch).count();
                let modified = cp.epoch != epoch;
                let must_be_invalid = modified || cp.state != "live";
                if modified {
                    ctx.fault("modification_with_points_outstanding");
                }
                if cp.state == "released" {
                    ctx.fault("point_released");
                }
                if cp.state == "used" {
                    ctx.fault("point_reused");
                }
                if live_newer >= MAX_CP {
                    ctx.fault("more_points_than_bound");
                }
                let mut cur = cp.clone();
                let mut rounds = 0;
                loop {
                    rounds += 1;
                    let r = browse_next(&mut conns[si], &cur.id, false).await;
                    let res = match r {
                        Some(Some(res)) => res,
                        _ => break,
                    };
                    let invalid = res.status_code == StatusCode::BadContinuationPointInvalid;
                    if must_be_invalid {
                        if !invalid {
                            ctx.violate(
                                "C30",
                                "stale-point-accepted",
                                if modified { "after-address-space-change" } else if cp.state == "used" { "used-twice" } else { "after-release" },
                                format!("BrowseNext on a continuation point that is {} returned {}", if modified { "older than an address-space change" } else if cp.state == "used" { "already consumed" } else { "released" }, res.status_code.name()),
                            );
                        }
                        cps[idx].state = "used";
                        break;
                    }
                    if invalid {
                        if live_newer < MAX_CP - 1 {
                            ctx.violate("C30", "valid-point-rejected", "", format!("BrowseNext rejected a continuation point that was never used, released or invalidated ({} newer points in the session)", live_newer));
                        } else {
                            ctx.probe("oldest_point_dropped_by_bound");
                        }
                        cps[idx].state = "used";
                        break;
                    }
                    if live_newer >= MAX_CP {
                        ctx.violate("C30", "bound-not-enforced", "", format!("a continuation point with {} newer points in the same session is still served (bound is {})", live_newer, MAX_CP));
                    }
                    let got: Vec<String> = res.references.unwrap_or_default().iter().map(refdesc_key).collect();
                    let n = got.len().min(cur.rest.len());
                    if got[..] != cur.rest[..n] || got.len() > cur.page as usize || (got.is_empty() && !cur.rest.is_empty()) {
                        ctx.violate("C30", "page-differs", "", format!("BrowseNext page ({} refs) is not the next part of the unpaged result ({} remaining)", got.len(), cur.rest.len()));
                        cps[idx].state = "used";
                        break;
                    }
                    cur.rest = cur.rest[n..].to_vec();
                    cps[idx].state = "used";
                    if res.continuation_point.is_null() {
                        if !cur.rest.is_empty() {
                            ctx.violate("C30", "result-truncated-without-point", "next", format!("{} references were never returned", cur.rest.len()));
                        }
                        ctx.probe("paged_browse_completed");
                        break;
                    }
                    // the continuation continues under a new point
                    order += 1;
                    let newcp = Cp {
                        id: res.continuation_point.clone(),
                        rest: cur.rest.clone(),
                        page: cur.page,
                        sess: si,
                        epoch,
                        state: "live",
                        order,
                    };
                    if op == "next" || rounds > 300 {
                        cps.push(newcp);
                        break;
                    }
                    cur = newcp.clone();
                    cps.push(newcp);
                    let l = cps.len() - 1;
                    cps[l].state = "used"; // about to be consumed by the loop
                }
                ctx.log(op, &format!("{}", cps[idx].state));
            }
            "add_node" | "del_node" | "add_ref" | "del_ref" => {
                let hdr = conns[si].header();
                let k = s["k"].as_u64().unwrap_or(0);
                let a = children[(s["a"].as_u64().unwrap_or(0) as usize) % children.len()].clone();
                let b = children[(s["b"].as_u64().unwrap_or(1) as usize) % children.len()].clone();
                let req: SupportedMessage = match op {
                    "add_node" => AddNodesRequest {
                        request_header: hdr,
                        nodes_to_add: Some(vec![AddNodesItem {
                            parent_node_id: parent.clone().into(),
                            reference_type_id: ReferenceTypeId::Organizes.into(),
                            requested_new_node_id: NodeId::new(ns, format!("new{}", k)).into(),
                            browse_name: QualifiedName::new(0, format!("new{}", k)),
                            node_class: NodeClass::Object,
                            node_attributes: ExtensionObject::from_encodable(
                                ObjectId::ObjectAttributes_Encoding_DefaultBinary,
                                &ObjectAttributes {
                                    specified_attributes: (AttributesMask::DISPLAY_NAME | AttributesMask::DESCRIPTION | AttributesMask::EVENT_NOTIFIER | AttributesMask::WRITE_MASK | AttributesMask::USER_WRITE_MASK).bits(),
                                    display_name: LocalizedText::from("new"),
                                    description: LocalizedText::from("d"),
                                    write_mask: 0,
                                    user_write_mask: 0,
                                    event_notifier: 0,
                                },
                            ),
                            type_definition: ExpandedNodeId::from(NodeId::from(&ObjectTypeId::BaseObjectType)),
                        }]),
                    }
                    .into(),
                    "del_node" => DeleteNodesRequest {
                        request_header: hdr,
                        nodes_to_delete: Some(vec![DeleteNodesItem {
                            node_id: a.clone(),
                            delete_target_references: s["target_refs"].as_bool().unwrap_or(true),
                        }]),
                    }
                    .into(),
                    "add_ref" => AddReferencesRequest {
                        request_header: hdr,
                        references_to_add: Some(vec![AddReferencesItem {
                            source_node_id: a.clone(),
                            reference_type_id: ReferenceTypeId::Organizes.into(),
                            is_forward: true,
                            target_server_uri: UAString::null(),
                            target_node_id: b.clone().into(),
                            target_node_class: NodeClass::Object,
                        }]),
                    }
                    .into(),
                    _ => DeleteReferencesRequest {
                        request_header: hdr,
                        references_to_delete: Some(vec![DeleteReferencesItem {
                            source_node_id: parent.clone(),
                            reference_type_id: ReferenceTypeId::Organizes.into(),
                            is_forward: true,
                            target_node_id: b.clone().into(),
                            delete_bidirectional: false,
                        }]),
                    }
                    .into(),
                };
                if a == b && op == "add_ref" {
                    continue;
                }
                // did the structure really change? compare the unpaged browse of everything we look at
                let before = snapshot(&server, &browse_targets, &children);
                let r = conns[si].call(req).await;
                let after = snapshot(&server, &browse_targets, &children);
                if before != after {
                    epoch += 1;
                    ctx.probe("address_space_changed");
                }
                ctx.log(&format!("{}>{}", op, l2::recv_kind(&r)), if before != after { "changed" } else { "same" });
            }
            _ => {}
        }
        tokio::time::sleep(std::time::Duration::from_millis(1)).await;
    }
    ctx.advance(1000 * steps.len() as u64);
}

/// Structural snapshot (existence + references of the nodes the scenario browses).
fn snapshot(server: &opcua::server::prelude::Server, targets: &[NodeId], children: &[NodeId]) -> String {
    let aspace = server.address_space();
    let a = aspace.read();
    let mut s = String::new();
    for n in targets.iter().chain(children.iter()) {
        let mut f: Vec<String> = a.find_references::<NodeId>(n, None).unwrap_or_default().iter().map(|r| format!("{}>{}", r.reference_type, r.target_node)).collect();
        let mut i: Vec<String> = a.find_inverse_references::<NodeId>(n, None).unwrap_or_default().iter().map(|r| format!("{}<{}", r.reference_type, r.target_node)).collect();
        f.sort();
        i.sort();
        s.push_str(&format!("{}:{}:{:?}:{:?};", n, a.node_exists(n), f, i));
    }
    s
}
