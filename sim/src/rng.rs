//! Hand-written PRNG (xoshiro256** seeded through splitmix64) so the stream can never change
//! under us. Every random choice of the simulator comes from here; logging never draws.

#[derive(Clone, Debug)]
pub struct Rng {
    s: [u64; 4],
}

pub fn splitmix64(x: &mut u64) -> u64 {
    *x = x.wrapping_add(0x9E37_79B9_7F4A_7C15);
    let mut z = *x;
    z = (z ^ (z >> 30)).wrapping_mul(0xBF58_476D_1CE4_E5B9);
    z = (z ^ (z >> 27)).wrapping_mul(0x94D0_49BB_1331_11EB);
    z ^ (z >> 31)
}

pub fn fnv1a(data: &[u8]) -> u64 {
    let mut h: u64 = 0xcbf2_9ce4_8422_2325;
    for b in data {
        h ^= *b as u64;
        h = h.wrapping_mul(0x0000_0100_0000_01B3);
    }
    h
}

pub fn fnv_mix(h: u64, data: &[u8]) -> u64 {
    let mut h = h;
    for b in data {
        h ^= *b as u64;
        h = h.wrapping_mul(0x0000_0100_0000_01B3);
    }
    h
}

impl Rng {
    pub fn new(seed: u64) -> Rng {
        let mut x = seed;
        let s = [
            splitmix64(&mut x),
            splitmix64(&mut x),
            splitmix64(&mut x),
            splitmix64(&mut x),
        ];
        Rng { s }
    }

    /// Sub-stream keyed by stable identifiers so that deleting a plan step does not shift the
    /// randomness of others.
    pub fn derive(seed: u64, purpose: &str, a: u64, b: u64) -> Rng {
        let mut h = fnv1a(purpose.as_bytes());
        h = fnv_mix(h, &seed.to_le_bytes());
        h = fnv_mix(h, &a.to_le_bytes());
        h = fnv_mix(h, &b.to_le_bytes());
        Rng::new(h)
    }

    pub fn next_u64(&mut self) -> u64 {
        let result = self.s[1].wrapping_mul(5).rotate_left(7).wrapping_mul(9);
        let t = self.s[1] << 17;
        self.s[2] ^= self.s[0];
        self.s[3] ^= self.s[1];
        self.s[1] ^= self.s[2];
        self.s[0] ^= self.s[3];
        self.s[2] ^= t;
        self.s[3] = self.s[3].rotate_left(45);
        result
    }

    pub fn next_u32(&mut self) -> u32 {
        (self.next_u64() >> 32) as u32
    }

    /// Uniform in [0, n). n == 0 returns 0.
    pub fn below(&mut self, n: u64) -> u64 {
        if n == 0 {
            return 0;
        }
        // multiply-shift; bias is irrelevant here
        ((self.next_u64() as u128 * n as u128) >> 64) as u64
    }

    /// Uniform in [lo, hi] inclusive.
    pub fn range(&mut self, lo: i64, hi: i64) -> i64 {
        if hi <= lo {
            return lo;
        }
        lo + self.below((hi - lo) as u64 + 1) as i64
    }

    pub fn urange(&mut self, lo: usize, hi: usize) -> usize {
        self.range(lo as i64, hi as i64) as usize
    }

    pub fn chance(&mut self, p: f64) -> bool {
        (self.next_u64() >> 11) as f64 / ((1u64 << 53) as f64) < p
    }

    pub fn f64(&mut self) -> f64 {
        (self.next_u64() >> 11) as f64 / ((1u64 << 53) as f64)
    }

    pub fn pick<'a, T>(&mut self, v: &'a [T]) -> &'a T {
        &v[self.below(v.len() as u64) as usize]
    }

    /// Weighted pick: returns index.
    pub fn weighted(&mut self, w: &[u32]) -> usize {
        let total: u64 = w.iter().map(|x| *x as u64).sum();
        if total == 0 {
            return 0;
        }
        let mut r = self.below(total);
        for (i, x) in w.iter().enumerate() {
            if r < *x as u64 {
                return i;
            }
            r -= *x as u64;
        }
        w.len() - 1
    }

    pub fn bytes(&mut self, n: usize) -> Vec<u8> {
        let mut v = Vec::with_capacity(n);
        while v.len() < n {
            let x = self.next_u64().to_le_bytes();
            let take = (n - v.len()).min(8);
            v.extend_from_slice(&x[..take]);
        }
        v
    }

    pub fn fill(&mut self, buf: &mut [u8]) {
        let v = self.bytes(buf.len());
        buf.copy_from_slice(&v);
    }

    pub fn shuffle<T>(&mut self, v: &mut [T]) {
        for i in (1..v.len()).rev() {
            let j = self.below(i as u64 + 1) as usize;
            v.swap(i, j);
        }
    }
}
