//! Client-side L2: the real client (`AsyncSecureChannel` / `Session` with their transport and
//! event loops) on the paused, seeded tokio runtime, connected through the `verif::net` connector
//! seam to a scripted raw *server* peer. The peer frames, chunks and secures with the real
//! `core::comms` code (server role) but answers whatever, whenever, the plan says.

use bytes::BytesMut;
use opcua::core::comms::chunker::Chunker;
use opcua::core::comms::message_chunk::{MessageChunk, MessageChunkType, MessageIsFinalType};
use opcua::core::comms::secure_channel::{Role, SecureChannel};
use opcua::core::comms::tcp_codec::{Message, TcpCodec};
use opcua::core::comms::tcp_types::*;
use opcua::core::supported_message::SupportedMessage;
use opcua::crypto::SecurityPolicy;
use opcua::types::*;
use std::collections::VecDeque;
use std::sync::{Arc, Mutex};
use std::time::Duration;
use tokio::io::{AsyncReadExt, AsyncWriteExt, DuplexStream};
use tokio_util::codec::Decoder;

use crate::wire;

/// What the connector does with the next connection attempts.
#[derive(Default)]
pub struct AcceptorState {
    pub queue: VecDeque<DuplexStream>,
    pub refuse: bool,
    pub attempts: u64,
    pub capacity: usize,
}

#[derive(Clone)]
pub struct Acceptor {
    pub state: Arc<Mutex<AcceptorState>>,
}

/// Install the connector seam: every `TcpStream::connect` of the client yields one end of a fresh
/// in-memory duplex stream; the other end is queued for the scripted server.
pub fn install_connector(capacity: usize) -> Acceptor {
    let state = Arc::new(Mutex::new(AcceptorState {
        queue: VecDeque::new(),
        refuse: false,
        attempts: 0,
        capacity,
    }));
    let s2 = state.clone();
    opcua::verif::net::set_connector(Some(Box::new(move |addr| {
        let mut st = s2.lock().unwrap();
        st.attempts += 1;
        if st.refuse {
            return Err(std::io::Error::new(std::io::ErrorKind::ConnectionRefused, "simulated: connection refused"));
        }
        let (client_end, server_end) = tokio::io::duplex(st.capacity);
        st.queue.push_back(server_end);
        Ok(opcua::verif::net::TcpStream::from_stream(client_end, addr))
    })));
    Acceptor { state }
}

pub fn remove_connector() {
    opcua::verif::net::set_connector(None);
}

impl Acceptor {
    pub fn try_accept(&self) -> Option<DuplexStream> {
        self.state.lock().unwrap().queue.pop_front()
    }
    pub fn set_refuse(&self, refuse: bool) {
        self.state.lock().unwrap().refuse = refuse;
    }
    pub fn attempts(&self) -> u64 {
        self.state.lock().unwrap().attempts
    }
    /// Wait (virtual time) for the client to connect.
    pub async fn accept(&self, limit: Duration) -> Option<DuplexStream> {
        let deadline = tokio::time::Instant::now() + limit;
        loop {
            if let Some(s) = self.try_accept() {
                return Some(s);
            }
            if tokio::time::Instant::now() >= deadline {
                return None;
            }
            tokio::time::sleep(Duration::from_millis(1)).await;
        }
    }
}

#[derive(Debug, Clone, PartialEq)]
pub enum SrvRecv {
    Hello(HelloMessage),
    Msg { request_id: u32, first_seq: u32, chunks: usize, token_id: u32, msg: SupportedMessage },
    Eof,
    Timeout,
    Bad(StatusCode),
}

pub struct RawServer {
    pub io: Option<DuplexStream>,
    pub chan: SecureChannel,
    pub codec: TcpCodec,
    pub inbuf: BytesMut,
    pub next_seq: u32,
    pub pending: Vec<MessageChunk>,
    pub chunk_size: usize,
    pub channel_id: u32,
    pub next_token_id: u32,
    pub eof: bool,
    pub bytes_sent: u64,
    pub bytes_received: u64,
    pub key_bits: u32,
    /// sender certificate of the most recent asymmetric (OPN) chunk
    pub last_sender_cert: ByteString,
}

impl RawServer {
    pub fn new(io: DuplexStream, channel_id: u32) -> RawServer {
        RawServer {
            io: Some(io),
            chan: wire::bare_channel(Role::Server, DecodingOptions::default()),
            codec: TcpCodec::new(DecodingOptions::default()),
            inbuf: BytesMut::new(),
            next_seq: 1,
            pending: Vec::new(),
            chunk_size: 65536,
            channel_id,
            next_token_id: 1,
            eof: false,
            bytes_sent: 0,
            bytes_received: 0,
            key_bits: 2048,
            last_sender_cert: ByteString::null(),
        }
    }

    /// Give the server-role channel its identity (b) so that secured OPN requests can be decrypted.
    pub fn with_identity(mut self, bits: u32) -> RawServer {
        let b = wire::identity(bits, "b");
        self.chan.set_cert(Some(b.cert.clone()));
        self.chan.set_private_key(Some(b.key()));
        self.key_bits = bits;
        self
    }

    pub fn is_open(&self) -> bool {
        self.io.is_some() && !self.eof
    }

    /// Drop the connection (the client sees EOF / reset).
    pub fn close(&mut self) {
        self.io = None;
        self.eof = true;
    }

    pub async fn send_bytes(&mut self, bytes: &[u8]) -> bool {
        if let Some(io) = self.io.as_mut() {
            match tokio::time::timeout(Duration::from_secs(3600), io.write_all(bytes)).await {
                Ok(Ok(())) => {
                    self.bytes_sent += bytes.len() as u64;
                    true
                }
                _ => {
                    self.eof = true;
                    false
                }
            }
        } else {
            false
        }
    }

    pub async fn send_ack(&mut self, h: &HelloMessage) -> bool {
        let mut ack = AcknowledgeMessage {
            message_header: MessageHeader::new(MessageType::Acknowledge),
            protocol_version: 0,
            receive_buffer_size: h.send_buffer_size.max(8192),
            send_buffer_size: h.receive_buffer_size.max(8192),
            max_message_size: h.max_message_size,
            max_chunk_count: h.max_chunk_count,
        };
        ack.message_header.message_size = ack.byte_len() as u32;
        let mut buf = Vec::new();
        let _ = ack.encode(&mut buf);
        self.send_bytes(&buf).await
    }

    pub async fn send_error(&mut self, status: StatusCode) -> bool {
        let e = ErrorMessage::from_status_code(status);
        let mut buf = Vec::new();
        let _ = e.encode(&mut buf);
        self.send_bytes(&buf).await
    }

    /// Chunk and secure a response with the real code. Sequence numbers are assigned now.
    pub fn encode(&mut self, request_id: u32, msg: &SupportedMessage, chunk_size: usize) -> Result<Vec<Vec<u8>>, StatusCode> {
        let chunks = Chunker::encode(self.next_seq, request_id, 0, chunk_size, &self.chan, msg)?;
        self.next_seq += chunks.len() as u32;
        let mut out = Vec::new();
        for c in chunks.iter() {
            let mut dst = vec![0u8; c.data.len() + 8192];
            let n = self.chan.apply_security(c, &mut dst)?;
            dst.truncate(n);
            out.push(dst);
        }
        Ok(out)
    }

    /// A single abort (FinalError) chunk for `request_id`.
    pub fn encode_abort(&mut self, request_id: u32) -> Result<Vec<u8>, StatusCode> {
        let body = {
            let mut b = Vec::new();
            let _ = (StatusCode::BadTcpInternalError.bits()).encode(&mut b);
            let _ = UAString::from("aborted").encode(&mut b);
            b
        };
        let c = MessageChunk::new(self.next_seq, request_id, MessageChunkType::Message, MessageIsFinalType::FinalError, &self.chan, &body)?;
        self.next_seq += 1;
        let mut dst = vec![0u8; c.data.len() + 8192];
        let n = self.chan.apply_security(&c, &mut dst)?;
        dst.truncate(n);
        Ok(dst)
    }

    pub async fn respond(&mut self, request_id: u32, msg: &SupportedMessage) -> bool {
        match self.encode(request_id, msg, self.chunk_size) {
            Ok(chunks) => {
                for c in chunks {
                    if !self.send_bytes(&c).await {
                        return false;
                    }
                }
                true
            }
            Err(_) => false,
        }
    }

    /// Build the OpenSecureChannel response for `req` the way the real server does, updating the
    /// server-role channel (token, nonces, keys).
    pub fn open_response(&mut self, req: &OpenSecureChannelRequest, sender_certificate: &ByteString, lifetime_ms: u32) -> SupportedMessage {
        self.chan.set_security_mode(req.security_mode);
        let token_id = self.next_token_id;
        self.next_token_id += 1;
        self.chan.set_token_id(token_id);
        self.chan.set_secure_channel_id(self.channel_id);
        let _ = self.chan.set_remote_cert_from_byte_string(sender_certificate);
        if self.chan.set_remote_nonce_from_byte_string(&req.client_nonce).is_ok() {
            self.chan.create_random_nonce();
        }
        if self.chan.security_policy() != SecurityPolicy::None && req.security_mode != MessageSecurityMode::None {
            self.chan.derive_keys();
        }
        OpenSecureChannelResponse {
            response_header: ResponseHeader::new_good(&req.request_header),
            server_protocol_version: 0,
            security_token: ChannelSecurityToken {
                channel_id: self.channel_id,
                token_id,
                created_at: DateTime::from(crate::hooks::utc_now()),
                revised_lifetime: lifetime_ms,
            },
            server_nonce: self.chan.local_nonce_as_byte_string(),
        }
        .into()
    }

    /// Receive the next frame-level event, waiting at most `limit` of virtual time.
    pub async fn recv(&mut self, limit: Duration) -> SrvRecv {
        let deadline = tokio::time::Instant::now() + limit;
        loop {
            match self.codec.decode(&mut self.inbuf) {
                Ok(Some(Message::Hello(h))) => return SrvRecv::Hello(h),
                Ok(Some(Message::Acknowledge(_))) | Ok(Some(Message::Error(_))) => return SrvRecv::Bad(StatusCode::BadUnexpectedError),
                Ok(Some(Message::Chunk(c))) => {
                    let chunk = match self.chan.verify_and_remove_security(&c.data) {
                        Ok(c) => c,
                        Err(e) => return SrvRecv::Bad(e),
                    };
                    let hdr = match chunk.message_header(&DecodingOptions::default()) {
                        Ok(h) => h,
                        Err(e) => return SrvRecv::Bad(e),
                    };
                    match hdr.is_final {
                        MessageIsFinalType::Intermediate => {
                            self.pending.push(chunk);
                            continue;
                        }
                        MessageIsFinalType::FinalError => {
                            self.pending.clear();
                            continue;
                        }
                        MessageIsFinalType::Final => {
                            self.pending.push(chunk);
                            let chunks: Vec<MessageChunk> = self.pending.drain(..).collect();
                            let info = match chunks[0].chunk_info(&self.chan) {
                                Ok(i) => i,
                                Err(e) => return SrvRecv::Bad(e),
                            };
                            let token_id = match &info.security_header {
                                opcua::core::comms::security_header::SecurityHeader::Symmetric(s) => s.token_id,
                                opcua::core::comms::security_header::SecurityHeader::Asymmetric(a) => {
                                    self.last_sender_cert = a.sender_certificate.clone();
                                    0
                                }
                            };
                            return match Chunker::decode(&chunks, &self.chan, None) {
                                Ok(m) => SrvRecv::Msg {
                                    request_id: info.sequence_header.request_id,
                                    first_seq: info.sequence_header.sequence_number,
                                    chunks: chunks.len(),
                                    token_id,
                                    msg: m,
                                },
                                Err(e) => SrvRecv::Bad(e),
                            };
                        }
                    }
                }
                Ok(None) => {}
                Err(_) => return SrvRecv::Bad(StatusCode::BadDecodingError),
            }
            if self.eof || self.io.is_none() {
                return SrvRecv::Eof;
            }
            let io = self.io.as_mut().unwrap();
            let mut tmp = [0u8; 16384];
            let now = tokio::time::Instant::now();
            let left = if deadline > now { deadline - now } else { Duration::from_micros(0) };
            match tokio::time::timeout(left, io.read(&mut tmp)).await {
                Err(_) => return SrvRecv::Timeout,
                Ok(Ok(0)) | Ok(Err(_)) => {
                    self.eof = true;
                    return SrvRecv::Eof;
                }
                Ok(Ok(n)) => {
                    self.bytes_received += n as u64;
                    self.inbuf.extend_from_slice(&tmp[..n]);
                }
            }
        }
    }

    /// The sender certificate of the most recent asymmetric (OPN) chunk is kept by the channel as
    /// its remote certificate; return it as a byte string.
    pub fn remote_cert_bytes(&self) -> ByteString {
        self.last_sender_cert.clone()
    }

    /// HEL -> ACK, OPN(issue) -> response. Returns false when the client did something else.
    pub async fn handshake(&mut self, lifetime_ms: u32) -> bool {
        match self.recv(Duration::from_secs(5)).await {
            SrvRecv::Hello(h) => {
                if !self.send_ack(&h).await {
                    return false;
                }
            }
            _ => return false,
        }
        match self.recv(Duration::from_secs(5)).await {
            SrvRecv::Msg { request_id, msg: SupportedMessage::OpenSecureChannelRequest(req), .. } => {
                let cert = self.remote_cert_bytes();
                let resp = self.open_response(&req, &cert, lifetime_ms);
                self.respond(request_id, &resp).await
            }
            _ => false,
        }
    }
}

pub fn good_header(handle: u32) -> ResponseHeader {
    ResponseHeader {
        timestamp: DateTime::from(crate::hooks::utc_now()),
        request_handle: handle,
        service_result: StatusCode::Good,
        service_diagnostics: DiagnosticInfo::null(),
        string_table: None,
        additional_header: ExtensionObject::null(),
    }
}

pub fn fault(handle: u32, status: StatusCode) -> SupportedMessage {
    let mut h = good_header(handle);
    h.service_result = status;
    ServiceFault { response_header: h }.into()
}

/// The request header of any request the client may send.
pub fn request_header_of(m: &SupportedMessage) -> Option<&RequestHeader> {
    Some(match m {
        SupportedMessage::OpenSecureChannelRequest(r) => &r.request_header,
        SupportedMessage::CloseSecureChannelRequest(r) => &r.request_header,
        SupportedMessage::CreateSessionRequest(r) => &r.request_header,
        SupportedMessage::ActivateSessionRequest(r) => &r.request_header,
        SupportedMessage::CloseSessionRequest(r) => &r.request_header,
        SupportedMessage::ReadRequest(r) => &r.request_header,
        SupportedMessage::WriteRequest(r) => &r.request_header,
        SupportedMessage::BrowseRequest(r) => &r.request_header,
        SupportedMessage::PublishRequest(r) => &r.request_header,
        SupportedMessage::RepublishRequest(r) => &r.request_header,
        SupportedMessage::CreateSubscriptionRequest(r) => &r.request_header,
        SupportedMessage::ModifySubscriptionRequest(r) => &r.request_header,
        SupportedMessage::DeleteSubscriptionsRequest(r) => &r.request_header,
        SupportedMessage::SetPublishingModeRequest(r) => &r.request_header,
        SupportedMessage::TransferSubscriptionsRequest(r) => &r.request_header,
        SupportedMessage::CreateMonitoredItemsRequest(r) => &r.request_header,
        SupportedMessage::DeleteMonitoredItemsRequest(r) => &r.request_header,
        SupportedMessage::GetEndpointsRequest(r) => &r.request_header,
        _ => return None,
    })
}
