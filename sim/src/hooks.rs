//! Binding of the simulator to the guarded seams in /repo (lib/src/verif.rs).

use opcua::verif;

/// 2027-01-01T00:00:00Z in microseconds (inside the validity of the fixture certificates).
pub const EPOCH_US: i64 = 1_798_761_600_000_000;

pub fn reset_for_run(seed: u64) {
    verif::clock::arm(EPOCH_US, 1);
    verif::random::arm(seed);
    verif::reset_globals();
}

pub fn clear_after_run() {}

pub fn wall_us() -> i64 {
    verif::clock::peek()
}

pub fn set_wall_us(t: i64) {
    verif::clock::set(t)
}

pub fn advance_wall_us(d: i64) {
    verif::clock::advance(d)
}

pub fn utc_now() -> chrono::DateTime<chrono::Utc> {
    verif::clock::utc_now()
}

/// Switch the wall clock seam to follow tokio's (paused) clock. Call inside the runtime.
pub fn follow_tokio() {
    verif::clock::arm_follow_tokio(EPOCH_US);
}
