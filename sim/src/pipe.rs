//! Wire pipeline (L1): a sender role and a receiver role built from the real chunker, send buffer /
//! message writer, secure channel and TCP codec, joined by a byte stream the simulator owns.

use bytes::BytesMut;
use opcua::client::transport::buffer::SendBuffer;
use opcua::core::comms::chunker::Chunker;
use opcua::core::comms::message_chunk::{MessageChunk, MessageIsFinalType};
use opcua::core::comms::message_writer::MessageWriter;
use opcua::core::comms::secure_channel::SecureChannel;
use opcua::core::comms::tcp_codec::{Message, TcpCodec};
use opcua::core::supported_message::SupportedMessage;
use opcua::types::*;
use tokio_util::codec::Decoder;

use crate::rng::Rng;
use crate::simio::{poll_once, SinkWriter};

/// Client-role sender: the real `SendBuffer` driven like `TcpTransport::poll_inner` drives it.
/// Returns the bytes put on the wire, one entry per secured chunk.
pub fn send_via_send_buffer(sb: &mut SendBuffer, chan: &SecureChannel, request_id: u32, msg: SupportedMessage) -> Result<Vec<Vec<u8>>, StatusCode> {
    sb.write(request_id, msg, chan)?;
    let mut out: Vec<Vec<u8>> = Vec::new();
    let mut guard = 0;
    loop {
        guard += 1;
        if guard > 100_000 {
            return Err(StatusCode::BadInternalError);
        }
        if sb.should_encode_chunks() {
            sb.encode_next_chunk(chan)?;
        }
        if !sb.can_read() {
            break;
        }
        let mut sink = SinkWriter::new(Rng::new(1), 1 << 30, 0.0);
        {
            let mut fut = Box::pin(sb.read_into_async(&mut sink));
            loop {
                match poll_once(fut.as_mut()) {
                    std::task::Poll::Ready(Ok(())) => break,
                    std::task::Poll::Ready(Err(_)) => return Err(StatusCode::BadCommunicationError),
                    std::task::Poll::Pending => {}
                }
            }
        }
        // one encode_next_chunk + full drain = one chunk on the wire
        if let Some(last) = out.last_mut() {
            if !sb.can_read() || true {
                let _ = last;
            }
        }
        out.push(sink.out);
    }
    // merge partial drains of the same chunk (the sink accepts everything at once, so each entry is a whole chunk)
    Ok(out)
}

/// Server-role sender: the real `MessageWriter`.
pub fn send_via_message_writer(mw: &mut MessageWriter, chan: &SecureChannel, request_id: u32, msg: SupportedMessage) -> Result<Vec<u8>, StatusCode> {
    mw.write(request_id, msg, chan)?;
    Ok(mw.bytes_to_write())
}

#[derive(Debug, Clone, PartialEq)]
pub enum Delivered {
    Message(u32, SupportedMessage),
    Rejected(StatusCode),
}

pub struct ChunkMeta {
    pub seq: u32,
    pub req: u32,
    pub is_final: MessageIsFinalType,
    pub wire_len: usize,
}

/// Receiver role: frames -> verify / decrypt -> collect until final -> validate -> decode.
/// Mirrors `server::TcpTransport::process_chunk` / client `TransportState::process_chunk` without
/// the dispatch behind them.
pub struct Receiver {
    pub chan: SecureChannel,
    pub codec: TcpCodec,
    pub buf: BytesMut,
    pub pending: Vec<MessageChunk>,
    pub last_seq: u32,
    pub metas: Vec<ChunkMeta>,
}

impl Receiver {
    pub fn new(chan: SecureChannel) -> Receiver {
        Receiver {
            chan,
            codec: TcpCodec::new(DecodingOptions::default()),
            buf: BytesMut::new(),
            pending: Vec::new(),
            last_seq: 0,
            metas: Vec::new(),
        }
    }

    pub fn feed(&mut self, bytes: &[u8]) -> Vec<Delivered> {
        self.buf.extend_from_slice(bytes);
        let mut out = Vec::new();
        loop {
            match self.codec.decode(&mut self.buf) {
                Ok(Some(Message::Chunk(c))) => {
                    let wire_len = c.data.len();
                    match self.accept_chunk(c, wire_len) {
                        Ok(Some(d)) => out.push(d),
                        Ok(None) => {}
                        Err(e) => {
                            self.pending.clear();
                            out.push(Delivered::Rejected(e));
                        }
                    }
                }
                Ok(Some(_)) => out.push(Delivered::Rejected(StatusCode::BadUnexpectedError)),
                Ok(None) => break,
                Err(_) => {
                    out.push(Delivered::Rejected(StatusCode::BadDecodingError));
                    self.buf.clear();
                    break;
                }
            }
        }
        out
    }

    fn accept_chunk(&mut self, c: MessageChunk, wire_len: usize) -> Result<Option<Delivered>, StatusCode> {
        let chunk = self.chan.verify_and_remove_security(&c.data)?;
        let info = chunk.chunk_info(&self.chan)?;
        self.metas.push(ChunkMeta {
            seq: info.sequence_header.sequence_number,
            req: info.sequence_header.request_id,
            is_final: info.message_header.is_final,
            wire_len,
        });
        match info.message_header.is_final {
            MessageIsFinalType::FinalError => {
                self.pending.clear();
                Ok(None)
            }
            MessageIsFinalType::Intermediate => {
                self.pending.push(chunk);
                Ok(None)
            }
            MessageIsFinalType::Final => {
                self.pending.push(chunk);
                let chunks: Vec<MessageChunk> = self.pending.drain(..).collect();
                let first = chunks[0].chunk_info(&self.chan)?;
                self.last_seq = Chunker::validate_chunks(self.last_seq + 1, &self.chan, &chunks)?;
                let m = Chunker::decode(&chunks, &self.chan, None)?;
                Ok(Some(Delivered::Message(first.sequence_header.request_id, m)))
            }
        }
    }
}

/// A ReadResponse whose encoded size is roughly `target` bytes.
pub fn sized_read_response(handle: u32, target: usize, rng: &mut Rng) -> ReadResponse {
    let mut results = Vec::new();
    let mut size = 60usize;
    while size < target {
        let remaining = target - size;
        let n = remaining.min(1500).saturating_sub(12).max(1);
        let bytes = rng.bytes(n);
        let dv = DataValue::value_only(Variant::ByteString(ByteString::from(bytes)));
        size += dv.byte_len();
        results.push(dv);
        if results.len() > 100_000 {
            break;
        }
    }
    ReadResponse {
        response_header: ResponseHeader {
            timestamp: DateTime::from(crate::hooks::utc_now()),
            request_handle: handle,
            service_result: StatusCode::Good,
            service_diagnostics: DiagnosticInfo::null(),
            string_table: None,
            additional_header: ExtensionObject::null(),
        },
        results: Some(results),
        diagnostic_infos: None,
    }
}
