mod baton;
mod ctx;
mod framework;
mod hooks;
mod l2;
mod locks;
mod panics;
mod pipe;
mod rawsrv;
mod rng;
mod scenarios;
mod simio;
mod subs;
mod wire;

use framework::{Scenario, Tier};

#[global_allocator]
static ALLOC: scenarios::c02_decode::CountingAlloc = scenarios::c02_decode::CountingAlloc;

fn find(id: &str) -> Option<Box<dyn Scenario>> {
    scenarios::all().into_iter().find(|s| s.id() == id)
}

fn usage() -> i32 {
    eprintln!("usage: opcua-sim check <ID> [quick|thorough] | replay <file> | determinism <ID> [n] | list");
    2
}

fn seed_from_env() -> u64 {
    std::env::var("VERIF_SEED").ok().and_then(|s| s.trim().parse::<u64>().ok()).unwrap_or(1)
}

fn real_main() -> i32 {
    panics::install_hook();
    let args: Vec<String> = std::env::args().collect();
    if args.len() < 2 {
        return usage();
    }
    match args[1].as_str() {
        "list" => {
            for s in scenarios::all() {
                println!("{}", s.id());
            }
            0
        }
        "check" => {
            if args.len() < 3 {
                return usage();
            }
            let tier = Tier::parse(
                &args.get(3).cloned().unwrap_or_else(|| std::env::var("VERIF_TIER").unwrap_or_else(|_| "quick".into())),
            );
            match find(&args[2]) {
                Some(s) => framework::check_main(s.as_ref(), tier, seed_from_env()),
                None => {
                    eprintln!("unknown property {}", args[2]);
                    2
                }
            }
        }
        "worker" => {
            if args.len() < 8 {
                return usage();
            }
            let s = match find(&args[2]) {
                Some(s) => s,
                None => return 2,
            };
            let tier = Tier::parse(&args[3]);
            let p = |i: usize| args[i].parse::<u64>().unwrap_or(0);
            framework::worker_main(s.as_ref(), tier, p(4), p(5), p(6).max(1), p(7))
        }
        "gen-plan" => {
            // debugging aid: print the plan of one run as an exec-plan document
            if args.len() < 4 {
                return usage();
            }
            match find(&args[2]) {
                Some(s) => {
                    let run = args[3].parse::<u64>().unwrap_or(0);
                    let tier = Tier::parse(&args.get(4).cloned().unwrap_or_else(|| "quick".into()));
                    let plan = s.gen(seed_from_env(), run, tier);
                    println!("{}", serde_json::json!({"property": s.id(), "scenario": s.id(), "plan": plan}));
                    0
                }
                None => 2,
            }
        }
        "exec-plan" => {
            let doc: serde_json::Value = match std::fs::read(&args[2]).ok().and_then(|b| serde_json::from_slice(&b).ok()) {
                Some(d) => d,
                None => return 2,
            };
            let id = doc["property"].as_str().unwrap_or("").to_string();
            match find(&id) {
                Some(s) => framework::exec_plan_main(s.as_ref(), &doc),
                None => 2,
            }
        }
        "replay" => {
            if args.len() < 3 {
                return usage();
            }
            let doc: serde_json::Value = match std::fs::read(&args[2]).ok().and_then(|b| serde_json::from_slice(&b).ok()) {
                Some(d) => d,
                None => {
                    eprintln!("cannot read replay file {}", args[2]);
                    return 2;
                }
            };
            let id = doc["scenario"].as_str().unwrap_or("").to_string();
            match find(&id) {
                Some(s) => framework::replay_main(s.as_ref(), &doc, &args[2]),
                None => {
                    eprintln!("unknown scenario {}", id);
                    2
                }
            }
        }
        "determinism" => {
            if args.len() < 3 {
                return usage();
            }
            let n = args.get(3).and_then(|s| s.parse().ok()).unwrap_or(200);
            let tier = Tier::parse(&args.get(4).cloned().unwrap_or_else(|| "quick".into()));
            match find(&args[2]) {
                Some(s) => framework::determinism_main(s.as_ref(), tier, seed_from_env(), n),
                None => 2,
            }
        }
        _ => usage(),
    }
}

fn main() {
    // The top-level process owns the scratch root; workers and plan-evaluation children put their
    // scratch directories below it, and it is removed when the top-level process is done.
    let top = std::env::var("VERIF_SCRATCH").is_err();
    let root = std::env::temp_dir().join(format!("opcua-verif-run-{}", std::process::id()));
    if top {
        std::env::set_var("VERIF_SCRATCH", &root);
    }
    let code = real_main();
    if top {
        let _ = std::fs::remove_dir_all(&root);
    }
    std::process::exit(code);
}
