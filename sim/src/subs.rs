//! Subscription family executor (L2): real server transport + timer task, raw client, and the
//! reference models / oracles for C21, C22, C24, C25, C26, C27, C40.
//!
//! Timing: the server's subscription timer fires every 100 ms of virtual time starting at the
//! connection instant. The client acts at phase +50 ms (+1 ms per operation), so client actions
//! and server ticks never tie.

use crate::ctx::Ctx;
use crate::l2::{self, Conn, Recv, ServerSpec};
use opcua::core::supported_message::SupportedMessage;
use opcua::server::address_space::variable::VariableBuilder;
use opcua::server::prelude::Server;
use opcua::types::*;
use serde_json::Value;
use std::collections::{BTreeMap, BTreeSet, VecDeque};
use std::time::Duration;

pub const TICK_MS: u64 = 100;

#[derive(Clone, Debug)]
pub struct Written {
    pub value: i32,
    /// index of the tick step count at which it was written
    pub tick: u64,
}

pub struct ItemModel {
    pub id: u32,
    pub handle: u32,
    pub var: usize,
    pub queue: usize,
    pub discard_oldest: bool,
    pub alive: bool,
    pub reporting: bool,
    pub sampling_ms: f64,
    pub filter: Value,
    pub created_tick: u64,
    /// values delivered so far, in order of arrival
    pub delivered: Vec<(i64, u32)>, // (value, status bits)
    /// value of the variable when the item was created
    pub initial: i64,
    pub queue_shrunk: bool,
    /// C25: ticks at which a report is forced whatever the filter says (ResendData)
    pub forced_ticks: Vec<u64>,
    pub modified: bool,
    /// queue resizes since the last report: (last value sampled before it, old size, old policy, new size, new policy)
    pub mods: Vec<(i64, usize, bool, usize, bool)>,
    /// last value reported (C25 model)
    pub last_reported: Option<(f64, u32)>,
}

pub struct SubModel {
    pub id: u32,
    pub alive: bool,
    pub pi_ms: f64,
    pub ka: u32,
    pub lt: u32,
    pub prio: u8,
    pub enabled: bool,
    pub ever_disabled: bool,
    pub items: Vec<ItemModel>,
    pub last_seq: u32,
    pub created_at_ms: u64,
    pub last_msg_at_ms: Option<u64>,
    pub first_msg_at_ms: Option<u64>,
    pub status_change_at_ms: Option<u64>,
    /// seq -> notification message as first sent
    pub sent: BTreeMap<u32, NotificationMessage>,
    pub acked_good: BTreeSet<u32>,
    /// every sequence number received (data, keep-alive, status) and not yet confirmed acknowledged
    pub unconfirmed: BTreeSet<u32>,
    /// messages that may legitimately have been evicted from the server's bounded retransmission queue
    pub evictable: BTreeSet<u32>,
    /// harness tick at which the client deleted the subscription
    pub deleted_at_tick: Option<u64>,
    pub created_at_tick: u64,
    pub unacked: Vec<u32>,
    /// time (ms) of the last client activity that resets the lifetime counter
    pub last_lifetime_reset_ms: u64,
    /// set when a publish request is offered after a silence longer than the lifetime: the
    /// subscription must already have expired, whatever is answered afterwards
    pub must_be_expired: Option<u64>,
    pub last_request_served_ms: u64,
    pub data_msgs: u64,
    pub keepalives: u64,
}

pub struct VarModel {
    pub node: NodeId,
    pub value: i32,
    pub writes: Vec<Written>,
    pub written_this_tick: bool,
    pub float: bool,
}

pub struct Outstanding {
    pub acks: Vec<(u32, u32)>,
    pub ack_mode: String,
    pub jump_at_send_ms: i64,
    pub req_id: u32,
    pub sent_at_ms: u64,
    pub header_ts_offset_ms: i64,
    pub hint: u32,
    pub null_ts: bool,
}

pub struct World {
    pub server: Server,
    pub c: Conn,
    pub subs: Vec<SubModel>,
    pub vars: Vec<VarModel>,
    pub outstanding: VecDeque<Outstanding>,
    pub t0: tokio::time::Instant,
    pub ticks: u64,
    pub ops_since_tick: u64,
    pub max_queue: usize,
    /// regime flags for C21 completeness
    pub tick_jitter: bool,
    pub clock_jumped: bool,
    pub dead: bool,
    pub publish_ids: BTreeSet<u32>,
    pub answered: BTreeSet<u32>,
    pub republish_checked: u64,
    pub responses_in_order: Vec<(u32, u32)>, // (sub id, seq) of good publish responses in arrival order
    pub jump_total_ms: i64,
    pub auto_publish: usize,
    pub regime: String,
    pub drained: bool,
    /// Republish answered BadSubscriptionIdInvalid for a subscription the client believes alive:
    /// (subscription index, sequence number). Judged after the drain, when a status change that
    /// explains it would have been delivered.
    pub republish_suspects: Vec<(usize, u32)>,
    /// per variable: (tick index at which a sample is taken, value x1000, status bits, written since previous tick)
    pub publish_send_times: Vec<u64>,
    pub capacity_shrunk: bool,
    /// a second, idle connection with its own activated session (its timer task also runs)
    pub idle_conn: Option<Conn>,
    pub c25_log: Vec<Vec<(u64, i64, u32, bool)>>,
    pub var_status: Vec<u32>,
}

fn f(v: &Value, k: &str, d: f64) -> f64 {
    v[k].as_f64().unwrap_or(d)
}
fn u(v: &Value, k: &str, d: u64) -> u64 {
    v[k].as_u64().unwrap_or(d)
}
fn b(v: &Value, k: &str, d: bool) -> bool {
    v[k].as_bool().unwrap_or(d)
}

impl World {
    pub fn now_ms(&self) -> u64 {
        (tokio::time::Instant::now() - self.t0).as_millis() as u64
    }

    pub async fn new(plan: &Value, ctx: &mut Ctx) -> Option<World> {
        crate::hooks::follow_tokio();
        let nvars = u(plan, "vars", 2) as usize;
        let max_queue = u(plan, "max_queue", 1000) as usize;
        let mut spec = ServerSpec::default();
        spec.max_monitored_item_queue_size = max_queue;
        let server = l2::build_server(&spec);
        let mut vars = Vec::new();
        {
            let aspace = server.address_space();
            let mut a = aspace.write();
            let ns = a.register_namespace("urn:sim:vars").unwrap_or(2);
            for i in 0..nvars {
                let float = plan["float_vars"].as_bool().unwrap_or(false);
                let node = NodeId::new(ns, format!("v{}", i));
                let mut bld = VariableBuilder::new(&node, format!("v{}", i), format!("v{}", i)).organized_by(ObjectId::ObjectsFolder).writable();
                bld = if float {
                    bld.data_type(DataTypeId::Double).value(0f64)
                } else {
                    bld.data_type(DataTypeId::Int32).value(0i32)
                };
                bld.insert(&mut a);
                vars.push(VarModel {
                    node,
                    value: 0,
                    writes: vec![Written { value: 0, tick: 0 }],
                    written_this_tick: false,
                    float,
                });
            }
        }
        let t0 = tokio::time::Instant::now();
        // the idle connection is opened first, so its timer task runs before the main connection's
        let mut idle_conn = None;
        if plan["second_conn"].as_bool().unwrap_or(false) {
            let mut c2 = Conn::connect(&server, TICK_MS as f64, 1 << 22, 50002);
            if c2.handshake(opcua::crypto::SecurityPolicy::None, MessageSecurityMode::None, 2048).await {
                idle_conn = Some(c2);
                ctx.fault("second_connection");
            }
        }
        let mut c = Conn::connect(&server, TICK_MS as f64, 1 << 22, 50001);
        if !c.handshake(opcua::crypto::SecurityPolicy::None, MessageSecurityMode::None, 2048).await {
            ctx.log("handshake-failed", "");
            return None;
        }
        let mut w = World {
            server,
            c,
            subs: Vec::new(),
            vars,
            outstanding: VecDeque::new(),
            t0,
            ticks: 0,
            ops_since_tick: 0,
            max_queue,
            tick_jitter: false,
            clock_jumped: false,
            dead: false,
            publish_ids: BTreeSet::new(),
            answered: BTreeSet::new(),
            republish_checked: 0,
            responses_in_order: Vec::new(),
            jump_total_ms: 0,
            auto_publish: u(plan, "auto_publish", 0) as usize,
            regime: plan["regime"].as_str().unwrap_or("").to_string(),
            drained: false,
            republish_suspects: Vec::new(),
            publish_send_times: Vec::new(),
            capacity_shrunk: false,
            idle_conn,
            c25_log: vec![Vec::new(); nvars],
            var_status: vec![0; nvars],
        };
        tokio::time::sleep(Duration::from_millis(TICK_MS / 2)).await;
        w.collect(ctx).await;
        Some(w)
    }

    async fn after_op(&mut self) {
        self.ops_since_tick += 1;
        tokio::time::sleep(Duration::from_millis(1)).await;
    }

    /// Sleep to the next +50 ms phase point (one server tick passes), then collect responses.
    pub async fn tick(&mut self, ctx: &mut Ctx) {
        self.ticks += 1;
        if self.outstanding.is_empty() && self.subs.iter().any(|s| s.alive) {
            ctx.fault("publish_starvation");
        }
        for (i, v) in self.vars.iter().enumerate() {
            self.c25_log[i].push((self.ticks, v.value as i64 * 1000, self.var_status[i], v.written_this_tick));
        }
        let now = tokio::time::Instant::now();
        let el = (now - self.t0).as_millis() as u64;
        // next time t with t % 100 == 50 and t > now
        let mut target = (el / TICK_MS) * TICK_MS + TICK_MS / 2;
        if target <= el {
            target += TICK_MS;
        }
        tokio::time::sleep_until(self.t0 + Duration::from_millis(target)).await;
        self.ops_since_tick = 0;
        for v in self.vars.iter_mut() {
            v.written_this_tick = false;
        }
        self.collect(ctx).await;
    }

    pub async fn step(&mut self, i: usize, s: &Value, ctx: &mut Ctx) {
        ctx.step(i);
        if self.dead {
            return;
        }
        let op = s["op"].as_str().unwrap_or("");
        match op {
            "create_sub" => {
                let req: SupportedMessage = CreateSubscriptionRequest {
                    request_header: self.c.header(),
                    requested_publishing_interval: f(s, "pi", 100.0),
                    requested_lifetime_count: u(s, "lt", 30) as u32,
                    requested_max_keep_alive_count: u(s, "ka", 10) as u32,
                    max_notifications_per_publish: 0,
                    publishing_enabled: b(s, "enabled", true),
                    priority: u(s, "prio", 0) as u8,
                }
                .into();
                let r = self.c.call(req).await;
                let now = self.now_ms();
                if let Recv::Msg(_, SupportedMessage::CreateSubscriptionResponse(resp)) = &r {
                    // C23's limits, asserted opportunistically (not a verdict of any claimed property)
                    ctx.log(
                        "create_sub>ok",
                        &format!("pi={} ka={} lt={}", resp.revised_publishing_interval, resp.revised_max_keep_alive_count, resp.revised_lifetime_count),
                    );
                    self.subs.push(SubModel {
                        id: resp.subscription_id,
                        alive: true,
                        pi_ms: resp.revised_publishing_interval,
                        ka: resp.revised_max_keep_alive_count,
                        lt: resp.revised_lifetime_count,
                        prio: u(s, "prio", 0) as u8,
                        enabled: b(s, "enabled", true),
                        ever_disabled: !b(s, "enabled", true),
                        items: Vec::new(),
                        last_seq: 0,
                        created_at_ms: now,
                        last_msg_at_ms: None,
                        first_msg_at_ms: None,
                        status_change_at_ms: None,
                        sent: BTreeMap::new(),
                        acked_good: BTreeSet::new(),
                        unconfirmed: BTreeSet::new(),
                        evictable: BTreeSet::new(),
                        deleted_at_tick: None,
                        created_at_tick: self.ticks,
                        unacked: Vec::new(),
                        last_lifetime_reset_ms: now,
                        must_be_expired: None,
                        last_request_served_ms: now,
                        data_msgs: 0,
                        keepalives: 0,
                    });
                } else {
                    ctx.log(&format!("create_sub>{}", l2::recv_kind(&r)), "");
                    self.note_conn(&r);
                }
            }
            "delete_sub" => {
                ctx.fault("lifecycle_churn");
                if let Some(k) = self.pick_sub(s) {
                    let id = self.subs[k].id;
                    let req: SupportedMessage = DeleteSubscriptionsRequest {
                        request_header: self.c.header(),
                        subscription_ids: Some(vec![id]),
                    }
                    .into();
                    let r = self.c.call(req).await;
                    if let Recv::Msg(_, SupportedMessage::DeleteSubscriptionsResponse(resp)) = &r {
                        if resp.results.as_ref().map(|v| v[0].is_good()).unwrap_or(false) {
                            // the messages of a deleted subscription are purged before the retransmission
                            // queue is counted, so a deletion pushes nothing out by itself
                            self.subs[k].alive = false;
                            self.subs[k].deleted_at_tick = Some(self.ticks);
                            for it in self.subs[k].items.iter_mut() {
                                it.alive = false;
                            }
                        }
                    }
                    ctx.log(&format!("delete_sub>{}", l2::recv_kind(&r)), "");
                    self.note_conn(&r);
                }
            }
            "modify_sub" => {
                // ModifySubscription that changes the priority only: the timing parameters the model
                // knows are requested again
                ctx.fault("subscription_priority_modified");
                if let Some(k) = self.pick_sub(s) {
                    let prio = u(s, "prio", 0) as u8;
                    let req: SupportedMessage = ModifySubscriptionRequest {
                        request_header: self.c.header(),
                        subscription_id: self.subs[k].id,
                        requested_publishing_interval: self.subs[k].pi_ms,
                        requested_lifetime_count: self.subs[k].lt,
                        requested_max_keep_alive_count: self.subs[k].ka,
                        max_notifications_per_publish: 0,
                        priority: prio,
                    }
                    .into();
                    let r = self.c.call(req).await;
                    let now = self.now_ms();
                    if let Recv::Msg(_, SupportedMessage::ModifySubscriptionResponse(resp)) = &r {
                        if resp.response_header.service_result.is_good() {
                            self.subs[k].prio = prio;
                            self.subs[k].pi_ms = resp.revised_publishing_interval;
                            self.subs[k].ka = resp.revised_max_keep_alive_count;
                            self.subs[k].lt = resp.revised_lifetime_count;
                            self.subs[k].last_lifetime_reset_ms = now;
                        }
                    }
                    ctx.log(&format!("modify_sub>{}", l2::recv_kind(&r)), &format!("prio={}", prio));
                    self.note_conn(&r);
                }
            }
            "set_publishing" => {
                ctx.fault("lifecycle_churn");
                if let Some(k) = self.pick_sub(s) {
                    let en = b(s, "enabled", true);
                    let req: SupportedMessage = SetPublishingModeRequest {
                        request_header: self.c.header(),
                        publishing_enabled: en,
                        subscription_ids: Some(vec![self.subs[k].id]),
                    }
                    .into();
                    let r = self.c.call(req).await;
                    if let Recv::Msg(_, SupportedMessage::SetPublishingModeResponse(_)) = &r {
                        self.subs[k].enabled = en;
                        if !en {
                            self.subs[k].ever_disabled = true;
                        }
                        self.subs[k].last_lifetime_reset_ms = self.now_ms();
                    }
                    ctx.log(&format!("set_publishing({})>{}", en, l2::recv_kind(&r)), "");
                    self.note_conn(&r);
                }
            }
            "create_item" => {
                if let Some(k) = self.pick_sub(s) {
                    let var = (u(s, "var", 0) as usize) % self.vars.len().max(1);
                    let handle = (k as u32 + 1) * 1000 + self.subs[k].items.len() as u32 + 1;
                    let filter = filter_object(&s["filter"]);
                    let mode = match s["mode"].as_str().unwrap_or("reporting") {
                        "sampling" => MonitoringMode::Sampling,
                        "disabled" => MonitoringMode::Disabled,
                        _ => MonitoringMode::Reporting,
                    };
                    let req: SupportedMessage = CreateMonitoredItemsRequest {
                        request_header: self.c.header(),
                        subscription_id: self.subs[k].id,
                        timestamps_to_return: match s["ttr"].as_str().unwrap_or("both") {
                            "neither" => TimestampsToReturn::Neither,
                            "source" => TimestampsToReturn::Source,
                            "server" => TimestampsToReturn::Server,
                            _ => TimestampsToReturn::Both,
                        },
                        items_to_create: Some(vec![MonitoredItemCreateRequest {
                            item_to_monitor: ReadValueId {
                                node_id: self.vars[var].node.clone(),
                                attribute_id: AttributeId::Value as u32,
                                index_range: UAString::null(),
                                data_encoding: QualifiedName::null(),
                            },
                            monitoring_mode: mode,
                            requested_parameters: MonitoringParameters {
                                client_handle: handle,
                                sampling_interval: f(s, "sampling", -1.0),
                                filter,
                                queue_size: u(s, "q", 1) as u32,
                                discard_oldest: b(s, "discard_oldest", true),
                            },
                        }]),
                    }
                    .into();
                    let r = self.c.call(req).await;
                    let mut outcome = l2::recv_kind(&r);
                    if let Recv::Msg(_, SupportedMessage::CreateMonitoredItemsResponse(resp)) = &r {
                        if let Some(res) = resp.results.as_ref().and_then(|v| v.first()) {
                            outcome = format!("item:{}", res.status_code.name());
                            if res.status_code.is_good() {
                                let initial = self.vars[var].value as i64;
                                let ticks = self.ticks;
                                self.subs[k].items.push(ItemModel {
                                    id: res.monitored_item_id,
                                    handle,
                                    var,
                                    queue: res.revised_queue_size as usize,
                                    discard_oldest: b(s, "discard_oldest", true),
                                    alive: true,
                                    reporting: mode == MonitoringMode::Reporting,
                                    sampling_ms: res.revised_sampling_interval,
                                    filter: s["filter"].clone(),
                                    created_tick: ticks,
                                    delivered: Vec::new(),
                                    initial,
                                    queue_shrunk: false,
                                    forced_ticks: Vec::new(),
                                    modified: false,
                                    mods: Vec::new(),
                                    last_reported: None,
                                });
                            }
                        }
                        self.subs[k].last_lifetime_reset_ms = self.now_ms();
                    }
                    ctx.log(&format!("create_item>{}", outcome), "");
                    self.note_conn(&r);
                }
            }
            "modify_item" => {
                if let Some((k, j)) = self.pick_item(s) {
                    let bad_filter = s["bad_filter"].as_str().map(|x| x.to_string());
                    // a resize carries the item's own filter; a "bad_filter" request carries one that can never report
                    let filter_obj = match bad_filter.as_deref() {
                        Some("percent") => filter_object(&serde_json::json!({"trigger": 1, "deadband_type": 2, "deadband": 10.0})),
                        Some("negative") => filter_object(&serde_json::json!({"trigger": 1, "deadband_type": 1, "deadband": -1.0})),
                        Some(_) => filter_object(&serde_json::json!({"trigger": 1, "deadband_type": 7, "deadband": 1.0})),
                        None => filter_object(&self.subs[k].items[j].filter),
                    };
                    let newq = if bad_filter.is_some() && self.regime != "c24" { self.subs[k].items[j].queue as u32 } else { u(s, "q", 1) as u32 };
                    let dis = b(s, "discard_oldest", self.subs[k].items[j].discard_oldest);
                    let req: SupportedMessage = ModifyMonitoredItemsRequest {
                        request_header: self.c.header(),
                        subscription_id: self.subs[k].id,
                        timestamps_to_return: TimestampsToReturn::Both,
                        items_to_modify: Some(vec![MonitoredItemModifyRequest {
                            monitored_item_id: self.subs[k].items[j].id,
                            requested_parameters: MonitoringParameters {
                                client_handle: self.subs[k].items[j].handle,
                                sampling_interval: self.subs[k].items[j].sampling_ms,
                                filter: filter_obj,
                                queue_size: newq,
                                discard_oldest: dis,
                            },
                        }]),
                    }
                    .into();
                    let r = self.c.call(req).await;
                    let mut outcome = l2::recv_kind(&r);
                    match &r {
                        Recv::Msg(_, SupportedMessage::ModifyMonitoredItemsResponse(resp)) => {
                            if let Some(res) = resp.results.as_ref().and_then(|v| v.first()) {
                                outcome = format!("modify:{}", res.status_code.name());
                                if bad_filter.is_some() {
                                    ctx.fault("modify_with_unusable_filter");
                                    if res.status_code.is_good() {
                                        ctx.violate("C25", "never-reports", "modify", format!("ModifyMonitoredItems accepted a {} deadband filter, which can never report a value change", bad_filter.as_deref().unwrap_or("")));
                                        self.dead = true;
                                    }
                                    // refused: nothing about the item may have changed (the model keeps its old size)
                                } else if res.status_code.is_good() {
                                    let it = &mut self.subs[k].items[j];
                                    if (res.revised_queue_size as usize) < it.queue {
                                        it.queue_shrunk = true;
                                        ctx.probe("queue_shrunk");
                                    }
                                    ctx.fault("queue_resize");
                                    let var = it.var;
                                    let last_sampled = self.vars[var].value as i64 - if self.vars[var].written_this_tick { 1 } else { 0 };
                                    let it = &mut self.subs[k].items[j];
                                    it.mods.push((last_sampled, it.queue.max(1), it.discard_oldest, (res.revised_queue_size as usize).max(1), dis));
                                    it.queue = res.revised_queue_size as usize;
                                    it.discard_oldest = dis;
                                    it.modified = true;
                                } else if self.regime == "c24" {
                                    ctx.violate("C24", "modify-failed", res.status_code.name(), format!("ModifyMonitoredItems(queue_size={}) returned {}", newq, res.status_code.name()));
                                }
                            }
                        }
                        Recv::Msg(_, m) if self.regime == "c24" => {
                            ctx.violate("C24", "modify-failed", &l2::msg_kind(m), format!("ModifyMonitoredItems(queue_size={}) answered with {}", newq, l2::recv_kind(&r)));
                        }
                        _ => {}
                    }
                    ctx.log(&format!("modify_item>{}", outcome), "");
                    self.note_conn(&r);
                }
            }
            "resend_data" => {
                if let Some(k) = self.pick_sub_any(s) {
                    let ticks = self.ticks;
                    if self.subs[k].alive && self.subs[k].items.iter().all(|it| !it.alive || ticks >= it.created_tick + 2) {
                        let req: SupportedMessage = CallRequest {
                            request_header: self.c.header(),
                            methods_to_call: Some(vec![CallMethodRequest {
                                object_id: ObjectId::Server.into(),
                                method_id: MethodId::Server_ResendData.into(),
                                input_arguments: Some(vec![Variant::UInt32(self.subs[k].id)]),
                            }]),
                        }
                        .into();
                        let r = self.c.call(req).await;
                        let ok = matches!(&r, Recv::Msg(_, SupportedMessage::CallResponse(resp)) if resp.results.as_ref().and_then(|v| v.first()).map(|x| x.status_code.is_good()).unwrap_or(false));
                        if ok {
                            ctx.fault("resend_data");
                            // every item reports its current value at the next sample, and that value
                            // becomes the one later samples are compared with
                            for it in self.subs[k].items.iter_mut().filter(|it| it.alive) {
                                it.forced_ticks.push(ticks + 1);
                            }
                        }
                        ctx.log(&format!("resend_data>{}", l2::recv_kind(&r)), "");
                        self.note_conn(&r);
                    }
                }
            }
            "delete_item" => {
                ctx.fault("lifecycle_churn");
                if let Some((k, j)) = self.pick_item(s) {
                    let req: SupportedMessage = DeleteMonitoredItemsRequest {
                        request_header: self.c.header(),
                        subscription_id: self.subs[k].id,
                        monitored_item_ids: Some(vec![self.subs[k].items[j].id]),
                    }
                    .into();
                    let r = self.c.call(req).await;
                    if let Recv::Msg(_, SupportedMessage::DeleteMonitoredItemsResponse(_)) = &r {
                        self.subs[k].items[j].alive = false;
                    }
                    ctx.log(&format!("delete_item>{}", l2::recv_kind(&r)), "");
                    self.note_conn(&r);
                }
            }
            "write" => {
                let var = (u(s, "var", 0) as usize) % self.vars.len().max(1);
                if self.vars[var].written_this_tick && !b(s, "force", false) {
                    return; // keep "at most one write per tick" unless the plan insists
                }
                if self.regime == "c24" || self.regime == "c25" {
                    // the first sample of a new item (second timer tick after its creation: the item is created with
                    // last_sample_time = now and the subscription may still be in Creating) must see the value it was created on
                    let ticks = self.ticks;
                    if self.subs.iter().any(|sub| sub.items.iter().any(|it| it.alive && it.var == var && ticks < it.created_tick + 2)) {
                        return;
                    }
                }
                let delta = s["delta"].as_i64().unwrap_or(1) as i32;
                let newv = self.vars[var].value.wrapping_add(delta);
                let via_service = s["via"].as_str().unwrap_or("service") == "service";
                let mut ok = false;
                if via_service {
                    let value = if self.vars[var].float { Variant::Double(newv as f64) } else { Variant::Int32(newv) };
                    let req: SupportedMessage = WriteRequest {
                        request_header: self.c.header(),
                        nodes_to_write: Some(vec![WriteValue {
                            node_id: self.vars[var].node.clone(),
                            attribute_id: AttributeId::Value as u32,
                            index_range: UAString::null(),
                            value: DataValue {
                                value: Some(value),
                                status: None,
                                source_timestamp: None,
                                source_picoseconds: None,
                                server_timestamp: None,
                                server_picoseconds: None,
                            },
                        }]),
                    }
                    .into();
                    let r = self.c.call(req).await;
                    if let Recv::Msg(_, SupportedMessage::WriteResponse(resp)) = &r {
                        ok = resp.results.as_ref().map(|v| v[0].is_good()).unwrap_or(false);
                    }
                    self.note_conn(&r);
                } else {
                    // application actor: direct set with chosen status
                    let status = StatusCode::from_bits_truncate(u(s, "status", 0) as u32);
                    if delta == 0 && status.bits() == self.var_status[var] {
                        ctx.fault("timestamp_only_change");
                    } else if delta == 0 {
                        ctx.fault("status_only_change");
                    } else if delta.abs() <= 3 {
                        ctx.fault("sub_deadband_change");
                    }
                    let now = DateTime::from(crate::hooks::utc_now());
                    let aspace = self.server.address_space();
                    let mut a = aspace.write();
                    if let Some(v) = a.find_variable_mut(self.vars[var].node.clone()) {
                        let value = if self.vars[var].float { Variant::Double(newv as f64) } else { Variant::Int32(newv) };
                        ok = v.set_value_direct(value, status, &now, &now).is_ok();
                    }
                    if ok {
                        self.var_status[var] = status.bits();
                    }
                }
                if ok && via_service {
                    self.var_status[var] = 0;
                }
                if ok {
                    let ticks = self.ticks;
                    let v = &mut self.vars[var];
                    v.value = newv;
                    v.writes.push(Written { value: newv, tick: ticks });
                    v.written_this_tick = true;
                }
                ctx.log(&format!("write{}", if ok { "" } else { "!" }), &format!("v{}={}", var, newv));
            }
            "publish" => {
                let n = u(s, "n", 1);
                if n >= 2 {
                    ctx.fault("publish_burst");
                }
                match s["ack"].as_str().unwrap_or("all") {
                    "dup" => ctx.fault("duplicate_ack"),
                    "unknown" | "badsub" => ctx.fault("unknown_ack"),
                    _ => {}
                }
                if self.outstanding.is_empty() {
                    let now = self.now_ms();
                    for sub in self.subs.iter_mut().filter(|s| s.alive) {
                        let silent = now - sub.last_lifetime_reset_ms;
                        if sub.must_be_expired.is_none() && silent >= (sub.lt as u64 + 2) * (sub.pi_ms as u64) + 3 * TICK_MS {
                            sub.must_be_expired = Some(silent);
                        }
                    }
                }
                for _ in 0..n {
                    let acks = self.make_acks(s["ack"].as_str().unwrap_or("all"));
                    let ack_pairs: Vec<(u32, u32)> = acks.iter().map(|a| (a.subscription_id, a.sequence_number)).collect();
                    let mut hdr = self.c.header();
                    let ts_mode = s["ts"].as_str().unwrap_or("now");
                    let mut off: i64 = 0;
                    let mut null_ts = false;
                    match ts_mode {
                        "past" => off = -(u(s, "ts_ms", 60_000) as i64),
                        "future" => off = u(s, "ts_ms", 60_000) as i64,
                        "null" => {
                            hdr.timestamp = DateTime::null();
                            null_ts = true;
                        }
                        "min" => {
                            hdr.timestamp = DateTime::ymd(1601, 1, 1);
                            null_ts = true;
                        }
                        "max" => {
                            hdr.timestamp = DateTime::ymd_hms(9999, 12, 31, 23, 59, 59);
                            off = i64::MAX / 4;
                        }
                        _ => {}
                    }
                    if off != 0 && ts_mode != "max" {
                        hdr.timestamp = DateTime::from(crate::hooks::utc_now() + chrono::Duration::milliseconds(off));
                    }
                    if ts_mode != "now" {
                        ctx.fault("client_timestamp");
                    }
                    hdr.timeout_hint = u(s, "hint", 0) as u32;
                    let req: SupportedMessage = PublishRequest {
                        request_header: hdr,
                        subscription_acknowledgements: if acks.is_empty() { None } else { Some(acks) },
                    }
                    .into();
                    if let Some(id) = self.c.send_message(&req).await {
                        let now = self.now_ms();
                        self.publish_send_times.push(now);
                        self.outstanding.push_back(Outstanding {
                            acks: ack_pairs.clone(),
                            ack_mode: s["ack"].as_str().unwrap_or("all").to_string(),
                            jump_at_send_ms: self.jump_total_ms,
                            req_id: id,
                            sent_at_ms: now,
                            header_ts_offset_ms: off,
                            hint: u(s, "hint", 0) as u32,
                            null_ts,
                        });
                        self.publish_ids.insert(id);
                    } else {
                        self.dead = true;
                    }
                }
                ctx.log(&format!("publish x{} ack={} ts={}", n, s["ack"].as_str().unwrap_or("all"), s["ts"].as_str().unwrap_or("now")), "");
            }
            "republish" => {
                if let Some(k) = self.pick_sub_any(s) {
                    let which = s["which"].as_str().unwrap_or("last");
                    let seq = match which {
                        "acked" => self.subs[k].acked_good.iter().next_back().cloned(),
                        "unknown" => Some(self.subs[k].last_seq + 1000),
                        "first" => self.subs[k].sent.keys().next().cloned(),
                        _ => self.subs[k].unacked.last().cloned(),
                    };
                    if let Some(seq) = seq {
                        // the verdict uses what may have happened up to now, unread responses included
                        self.mark_evictable(ctx);
                        let req: SupportedMessage = RepublishRequest {
                            request_header: self.c.header(),
                            subscription_id: self.subs[k].id,
                            retransmit_sequence_number: seq,
                        }
                        .into();
                        let r = self.c.call(req).await;
                        ctx.fault(if which == "acked" { "republish_after_ack" } else { "republish" });
                        self.check_republish(k, seq, which, &r, ctx);
                        ctx.log(&format!("republish({})>{}", which, l2::recv_kind(&r)), "");
                        self.note_conn(&r);
                    }
                }
            }
            "tick" => {
                let n = u(s, "n", 1);
                for _ in 0..n {
                    self.tick(ctx).await;
                    if self.dead {
                        break;
                    }
                }
                return;
            }
            "sleep_ms" => {
                // off-phase sleep: ticks lose their alignment with writes (jitter)
                self.tick_jitter = true;
                ctx.fault("sleep_offphase");
                tokio::time::sleep(Duration::from_millis(u(s, "ms", 10))).await;
                self.collect(ctx).await;
                return;
            }
            "check_expiry" => {
                // Expectation is derived from the time that actually elapsed, so that the clause
                // stays meaningful when the minimiser removes steps.
                if let Some(k) = self.pick_sub_any(s) {
                    let sub = &self.subs[k];
                    let got = sub.status_change_at_ms.is_some();
                    let mut times: Vec<u64> = vec![sub.created_at_ms];
                    times.extend(self.publish_send_times.iter().cloned());
                    let max_gap = times.windows(2).map(|w| w[1] - w[0]).max().unwrap_or(0);
                    if got && self.regime == "c22-inter" && max_gap + 2 * (sub.pi_ms as u64) <= (sub.lt as u64) * (sub.pi_ms as u64) {
                        ctx.violate("C22", "expired-with-requests", "intermittent", format!("subscription (lifetime count {}) closed although publish requests arrived at most {} ms apart", sub.lt, max_gap));
                    }
                    let now = self.now_ms();
                    let pi = sub.pi_ms as u64;
                    let lt = sub.lt as u64;
                    // a publish request must have been offered at least 2 ticks ago for the verdict "late"
                    let offered = self.publish_ids.len() > 0 && self.outstanding.iter().all(|o| now >= o.sent_at_ms + 2 * TICK_MS) ;
                    let silent_for = now - sub.last_lifetime_reset_ms;
                    if let (false, true, Some(silent)) = (got, offered, sub.must_be_expired) {
                        ctx.violate("C22", "expiry-late", "", format!("subscription (lifetime count {}, interval {} ms) was still alive when a publish request arrived after {} ms without any request, and no status change followed", lt, pi, silent));
                    } else if !got && offered && self.publish_count_since_reset(k) <= 1 && silent_for >= (lt + 2) * pi + 3 * TICK_MS {
                        ctx.violate("C22", "expiry-late", "", format!("subscription (lifetime count {}, interval {} ms) not closed with a status change {} ms after its last activity although no publish request was available", lt, pi, silent_for));
                    } else if got {
                        let at = sub.status_change_at_ms.unwrap();
                        let lived = at - sub.created_at_ms;
                        // the status change is only *delivered* when a request arrives; it cannot have been
                        // produced later than that, so "early" is judged on the delivery time
                        if (lived as i64) < (lt as i64 - 1) * pi as i64 - (TICK_MS as i64) && self.publish_count_since_reset(k) <= 1 {
                            ctx.violate("C22", "expiry-early", "", format!("subscription (lifetime count {}, interval {} ms) was closed {} ms after creation", lt, pi, lived));
                        }
                    }
                    if got {
                        ctx.probe("subscription_expired");
                    } else {
                        ctx.probe("subscription_survived");
                    }
                    ctx.log(&format!("check_expiry>{}", got), "");
                }
                return;
            }
            "clock_jump" => {
                let ms = s["ms"].as_i64().unwrap_or(0);
                crate::hooks::advance_wall_us(ms * 1000);
                self.jump_total_ms += ms;
                self.clock_jumped = true;
                ctx.fault(if ms < 0 { "clock_jump_backward" } else { "clock_jump_forward" });
                ctx.log("clock_jump", &format!("{}ms", ms));
            }
            _ => {}
        }
        self.after_op().await;
    }

    /// Number of publish requests sent since subscription k was created.
    fn publish_count_since_reset(&self, k: usize) -> usize {
        let _ = k;
        self.publish_ids.len()
    }

    fn note_conn(&mut self, r: &Recv) {
        if matches!(r, Recv::Eof | Recv::Err(_) | Recv::Bad(_)) {
            self.dead = true;
        }
    }

    fn pick_sub(&self, s: &Value) -> Option<usize> {
        let alive: Vec<usize> = (0..self.subs.len()).filter(|k| self.subs[*k].alive).collect();
        if alive.is_empty() {
            None
        } else {
            Some(alive[(u(s, "sub", 0) as usize) % alive.len()])
        }
    }

    fn pick_sub_any(&self, s: &Value) -> Option<usize> {
        if self.subs.is_empty() {
            None
        } else {
            Some((u(s, "sub", 0) as usize) % self.subs.len())
        }
    }

    fn pick_item(&self, s: &Value) -> Option<(usize, usize)> {
        let k = self.pick_sub(s)?;
        let alive: Vec<usize> = (0..self.subs[k].items.len()).filter(|j| self.subs[k].items[*j].alive).collect();
        if alive.is_empty() {
            None
        } else {
            Some((k, alive[(u(s, "item", 0) as usize) % alive.len()]))
        }
    }

    /// Retransmission capacity is 4 x subscriptions; a message is only insisted on while the queue
    /// cannot have been over it. Messages of deleted subscriptions are purged before the count, so a
    /// deletion pushes nothing out by itself; a subscription that may have expired without the client
    /// knowing yet does not count towards the capacity. An expiry is different: the server may keep
    /// the closed subscription's messages (its status change among them) in the queue for a pass
    /// while the capacity already counts one subscription less, so everything unconfirmed at that
    /// moment may be pushed out. Which message goes first is the server's business (it is not the
    /// oldest: the queue is ordered by subscription id), so the verdict is all-or-nothing.
    /// Called whenever a message has been received and at the end of every pass.
    fn mark_evictable(&mut self, ctx: &mut Ctx) {
        let now_ms = self.now_ms();
        let ticks_now = self.ticks;
        // (a subscription created since the last read does not count either: what is read now may have
        // been sent before it existed)
        let alive = self.subs.iter().filter(|s| s.alive && s.created_at_tick + 1 < ticks_now && (now_ms.saturating_sub(s.last_lifetime_reset_ms) as f64) + 3.0 * s.pi_ms < s.lt as f64 * s.pi_ms).count();
        let unconfirmed: usize = self.subs.iter().filter(|s| s.alive).map(|s| s.unconfirmed.len()).sum();
        // the server's queue also holds what it has sent and the client has not read yet: at most one
        // message per outstanding publish request
        let in_flight = self.outstanding.len();
        // a message read now may have been sent while a subscription deleted since the last read still
        // existed: then its messages and its share of the capacity counted
        let ticks = self.ticks;
        let grace: Vec<usize> = (0..self.subs.len()).filter(|k| !self.subs[*k].alive && self.subs[*k].deleted_at_tick.map(|t| ticks <= t + 1).unwrap_or(false)).collect();
        let grace_unconfirmed: usize = grace.iter().map(|k| self.subs[*k].unconfirmed.len()).sum();
        let over_now = unconfirmed + in_flight + 1 > 4 * alive;
        let over_before_delete = !grace.is_empty() && unconfirmed + grace_unconfirmed + in_flight + 1 > 4 * (alive + grace.len());
        if over_now || over_before_delete || self.capacity_shrunk {
            self.capacity_shrunk = false;
            for sub in self.subs.iter_mut() {
                let u: Vec<u32> = sub.unconfirmed.iter().cloned().collect();
                sub.evictable.extend(u);
            }
            ctx.probe("retransmission_queue_near_capacity");
        }
    }

    fn make_acks(&mut self, mode: &str) -> Vec<SubscriptionAcknowledgement> {
        let mut acks = Vec::new();
        match mode {
            "none" => {}
            "unknown" => {
                if let Some(sub) = self.subs.iter().find(|s| s.alive) {
                    acks.push(SubscriptionAcknowledgement {
                        subscription_id: sub.id,
                        sequence_number: sub.last_seq + 5000,
                    });
                }
            }
            "dup" => {
                for sub in self.subs.iter() {
                    if let Some(seq) = sub.acked_good.iter().next_back() {
                        acks.push(SubscriptionAcknowledgement {
                            subscription_id: sub.id,
                            sequence_number: *seq,
                        });
                    }
                }
            }
            "badsub" => {
                acks.push(SubscriptionAcknowledgement {
                    subscription_id: 999_999,
                    sequence_number: 1,
                });
            }
            // only the newest message of each subscription: the older ones stay retained
            "newest" => {
                for sub in self.subs.iter_mut() {
                    if !sub.alive {
                        continue;
                    }
                    if let Some(seq) = sub.unacked.pop() {
                        acks.push(SubscriptionAcknowledgement {
                            subscription_id: sub.id,
                            sequence_number: seq,
                        });
                    }
                }
            }
            _ => {
                for sub in self.subs.iter_mut() {
                    if !sub.alive {
                        continue;
                    }
                    for seq in sub.unacked.drain(..) {
                        acks.push(SubscriptionAcknowledgement {
                            subscription_id: sub.id,
                            sequence_number: seq,
                        });
                        if mode == "twice" {
                            // the same acknowledgement a second time in the same request
                            acks.push(SubscriptionAcknowledgement {
                                subscription_id: sub.id,
                                sequence_number: seq,
                            });
                        }
                    }
                }
            }
        }
        acks
    }
}

pub fn filter_object(fv: &Value) -> ExtensionObject {
    if fv.is_null() {
        return ExtensionObject::null();
    }
    let trigger = match fv["trigger"].as_u64().unwrap_or(1) {
        0 => DataChangeTrigger::Status,
        2 => DataChangeTrigger::StatusValueTimestamp,
        _ => DataChangeTrigger::StatusValue,
    };
    ExtensionObject::from_encodable(
        ObjectId::DataChangeFilter_Encoding_DefaultBinary,
        &DataChangeFilter {
            trigger,
            deadband_type: fv["deadband_type"].as_u64().unwrap_or(0) as u32,
            deadband_value: fv["deadband"].as_f64().unwrap_or(0.0),
        },
    )
}

#[derive(PartialEq, Debug)]
enum Kind {
    KeepAlive,
    Data,
    Status(u32),
}

fn classify(nm: &NotificationMessage) -> (Kind, Vec<(u32, f64, u32)>) {
    let opts = DecodingOptions::default();
    let mut values = Vec::new();
    let data = match &nm.notification_data {
        None => return (Kind::KeepAlive, values),
        Some(d) if d.is_empty() => return (Kind::KeepAlive, values),
        Some(d) => d,
    };
    let mut kind = Kind::Data;
    for n in data.iter() {
        if let Ok(oid) = n.node_id.as_object_id() {
            if oid == ObjectId::StatusChangeNotification_Encoding_DefaultBinary {
                if let Ok(sc) = n.decode_inner::<StatusChangeNotification>(&opts) {
                    kind = Kind::Status(sc.status.bits());
                }
            } else if oid == ObjectId::DataChangeNotification_Encoding_DefaultBinary {
                if let Ok(dc) = n.decode_inner::<DataChangeNotification>(&opts) {
                    for mi in dc.monitored_items.unwrap_or_default() {
                        let v = match mi.value.value {
                            Some(Variant::Int32(v)) => v as f64,
                            Some(Variant::Double(v)) => v,
                            _ => f64::NAN,
                        };
                        values.push((mi.client_handle, v, mi.value.status.map(|s| s.bits()).unwrap_or(0)));
                    }
                }
            }
        }
    }
    (kind, values)
}

const OVERFLOW_BIT: u32 = 0x480; // info type DataValue (0x400) + overflow (0x80)

impl World {
    pub async fn collect(&mut self, ctx: &mut Ctx) {
        if let Some(c2) = self.idle_conn.as_mut() {
            for r in c2.drain(Duration::from_millis(0)).await {
                if let Recv::Msg(id, m) = &r {
                    ctx.violate("C21", "response-on-wrong-connection", "", format!("the idle second connection received {} (request id {}) that answers a request of the first connection", l2::msg_kind(m), id));
                }
            }
        }
        let got = self.c.drain(Duration::from_millis(0)).await;
        let mut batch: Vec<(usize, Kind, i64)> = Vec::new();
        // C27: which subscriptions had undelivered data when the last timer tick ran
        let ticks = self.ticks;
        let ready: Vec<usize> = (0..self.subs.len())
            .filter(|k| {
                let s = &self.subs[*k];
                s.alive
                    && s.enabled
                    && s.items.iter().any(|it| {
                        it.alive && it.reporting && it.created_tick + 2 <= ticks && it.delivered.last().map(|d| d.0).unwrap_or(i64::MIN) < self.vars[it.var].value as i64
                    })
            })
            .collect();
        for r in got {
            match r {
                Recv::Msg(id, m) => {
                    if self.publish_ids.contains(&id) {
                        if let Some(k) = self.on_publish_answer(id, &m, ctx) {
                            batch.push(k);
                        }
                    }
                }
                Recv::Eof | Recv::Err(_) | Recv::Bad(_) => {
                    ctx.log(&format!("conn>{}", l2::recv_kind(&r)), "");
                    self.dead = true;
                }
                _ => {}
            }
        }
        self.check_priority(&batch, &ready, ctx);
        self.mark_evictable(ctx);
        // top-up of publish requests (regimes where requests are "always available")
        if self.auto_publish > 0 && !self.dead && self.subs.iter().any(|s| s.alive) {
            while self.outstanding.len() < self.auto_publish {
                let acks = self.make_acks("all");
                let ack_pairs: Vec<(u32, u32)> = acks.iter().map(|a| (a.subscription_id, a.sequence_number)).collect();
                let req: SupportedMessage = PublishRequest {
                    request_header: self.c.header(),
                    subscription_acknowledgements: if acks.is_empty() { None } else { Some(acks) },
                }
                .into();
                match self.c.send_message(&req).await {
                    Some(id) => {
                        let now = self.now_ms();
                        self.outstanding.push_back(Outstanding {
                            acks: ack_pairs,
                            ack_mode: "all".into(),
                            jump_at_send_ms: self.jump_total_ms,
                            req_id: id,
                            sent_at_ms: now,
                            header_ts_offset_ms: 0,
                            hint: 0,
                            null_ts: false,
                        });
                        self.publish_ids.insert(id);
                    }
                    None => {
                        self.dead = true;
                        break;
                    }
                }
            }
            tokio::time::sleep(Duration::from_millis(1)).await;
        }
    }

    fn on_publish_answer(&mut self, id: u32, m: &SupportedMessage, ctx: &mut Ctx) -> Option<(usize, Kind, i64)> {
        let now = self.now_ms();
        if self.answered.contains(&id) {
            ctx.violate("C21", "request-answered-twice", "", format!("publish request {} received a second response", id));
            return None;
        }
        self.answered.insert(id);
        let pos = self.outstanding.iter().position(|o| o.req_id == id);
        let out = match pos {
            Some(p) => {
                let is_good = matches!(m, SupportedMessage::PublishResponse(_));
                if is_good && p != 0 {
                    ctx.violate(
                        "C21",
                        "not-oldest-first",
                        "",
                        format!("publish response used request {} although {} older request(s) were still queued", id, p),
                    );
                }
                // requests that time out are answered in the order in which they were queued, too
                if !is_good && p != 0 && self.regime == "c21" {
                    if let SupportedMessage::ServiceFault(f) = m {
                        if f.response_header.service_result == StatusCode::BadTimeout {
                            let limit = |o: &Outstanding| o.sent_at_ms + if o.hint > 0 && o.hint < 30_000 { o.hint as u64 } else { 30_000 };
                            let mine = limit(&self.outstanding[p]);
                            if self.outstanding.iter().take(p).any(|o| limit(o) <= mine) {
                                ctx.violate("C21", "not-oldest-first", "timeout", format!("publish request {} was answered BadTimeout although {} older request(s) with the same or an earlier deadline were still queued", id, p));
                            }
                        }
                    }
                }
                self.outstanding.remove(p).unwrap()
            }
            None => {
                ctx.violate("C21", "response-without-request", "", format!("publish response for request id {} which is not outstanding", id));
                return None;
            }
        };
        match m {
            SupportedMessage::ServiceFault(fault) => {
                let st = fault.response_header.service_result;
                ctx.log(&format!("publish-fault:{}", st.name()), "");
                if out.ack_mode == "all" && st != StatusCode::BadTimeout {
                    // a request refused at the door never had its acknowledgements processed
                    for (sid, seq) in out.acks.iter() {
                        if let Some(sub) = self.subs.iter_mut().find(|s| s.id == *sid) {
                            sub.unacked.push(*seq);
                        }
                    }
                }
                if st == StatusCode::BadTimeout {
                    ctx.probe("publish_request_timed_out");
                    let t = if out.hint > 0 && out.hint < 30_000 { out.hint as i64 } else { 30_000 };
                    let elapsed = (now as i64 - out.sent_at_ms as i64) + (self.jump_total_ms - out.jump_at_send_ms) - out.header_ts_offset_ms;
                    if !out.null_ts && elapsed <= t {
                        ctx.violate(
                            "C26",
                            "timeout-early",
                            "",
                            format!("publish request answered BadTimeout {} ms after its timestamp, timeout is {} ms", elapsed, t),
                        );
                    }
                }
                None
            }
            SupportedMessage::PublishResponse(resp) => {
                let k = match self.subs.iter().position(|s| s.id == resp.subscription_id) {
                    Some(k) => k,
                    None => {
                        ctx.violate("C21", "unknown-subscription", "", format!("publish response names subscription {} which was never created", resp.subscription_id));
                        return None;
                    }
                };
                // acknowledgement results (C40)
                self.mark_evictable(ctx);
                self.check_ack_results(&out, resp, ctx);
                let nm = &resp.notification_message;
                let (kind, values) = classify(nm);
                let seq = nm.sequence_number;
                {
                    let sub = &mut self.subs[k];
                    match kind {
                        Kind::KeepAlive => {
                            sub.keepalives += 1;
                            if seq < sub.last_seq {
                                ctx.violate("C21", "sequence-not-increasing", "keepalive", format!("keep-alive of subscription {} carries sequence number {} after {}", sub.id, seq, sub.last_seq));
                            }
                        }
                        _ => {
                            if seq <= sub.last_seq && !(sub.last_seq == u32::MAX) {
                                ctx.violate(
                                    "C21",
                                    "sequence-not-increasing",
                                    "",
                                    format!("notification of subscription {} carries sequence number {} after {}", sub.id, seq, sub.last_seq),
                                );
                            }
                        }
                    }
                    if seq > sub.last_seq {
                        sub.last_seq = seq;
                    }
                    sub.unconfirmed.insert(seq);
                    if sub.first_msg_at_ms.is_none() {
                        sub.first_msg_at_ms = Some(now);
                    }
                }
                self.mark_evictable(ctx);
                self.check_keepalive_timing(k, now, &kind, ctx);
                let sub = &mut self.subs[k];
                sub.last_msg_at_ms = Some(now);
                sub.last_lifetime_reset_ms = now;
                match kind {
                    Kind::KeepAlive => {
                        ctx.log("pub>keepalive", &format!("sub{} seq{}", k, seq));
                    }
                    Kind::Status(code) => {
                        self.capacity_shrunk = true;
                        sub.status_change_at_ms = Some(now);
                        sub.alive = false;
                        for it in sub.items.iter_mut() {
                            it.alive = false;
                        }
                        ctx.log("pub>status", &format!("sub{} {:08x}", k, code));
                        ctx.probe("status_change_received");
                    }
                    Kind::Data => {
                        sub.data_msgs += 1;
                        sub.sent.insert(seq, nm.clone());
                        sub.unacked.push(seq);
                        ctx.log("pub>data", &format!("sub{} seq{} n{}", k, seq, values.len()));
                        self.on_data(k, &values, ctx);
                    }
                }
                if kind != Kind::KeepAlive || true {
                    self.responses_in_order.push((resp.subscription_id, seq));
                }
                Some((k, kind, resp.response_header.timestamp.as_chrono().timestamp_micros()))
            }
            other => {
                ctx.violate("C21", "wrong-response-type", "", format!("publish request answered with {}", l2::msg_kind(other)));
                None
            }
        }
    }

    fn on_data(&mut self, k: usize, values: &[(u32, f64, u32)], ctx: &mut Ctx) {
        let counter_mode = self.regime != "c25";
        // group by item
        let mut per_item: BTreeMap<u32, Vec<(f64, u32)>> = BTreeMap::new();
        for (h, v, st) in values.iter() {
            per_item.entry(*h).or_default().push((*v, *st));
        }
        for (h, list) in per_item.iter() {
            let j = match self.subs[k].items.iter().position(|it| it.handle == *h) {
                Some(j) => j,
                None => {
                    ctx.violate("C21", "unknown-item", "", format!("notification for client handle {} which was never created", h));
                    continue;
                }
            };
            let var = self.subs[k].items[j].var;
            if counter_mode {
                for (v, _st) in list.iter() {
                    let vi = *v as i64;
                    let known = self.vars[var].writes.iter().any(|w| w.value as i64 == vi);
                    if !known {
                        ctx.violate("C21", "value-never-written", "", format!("item {} delivered value {} which was never written to v{}", h, vi, var));
                    }
                    let it = &self.subs[k].items[j];
                    if let Some((last, _)) = it.delivered.last() {
                        if vi <= *last {
                            ctx.violate(
                                "C21",
                                if vi == *last { "value-delivered-twice" } else { "value-out-of-order" },
                                "",
                                format!("item {} delivered {} after {}", h, vi, last),
                            );
                        }
                    }
                    self.subs[k].items[j].delivered.push((vi, *_st));
                }
                if self.regime == "c24" {
                    self.check_queue(k, j, list, ctx);
                }
            } else {
                for (v, st) in list.iter() {
                    // C25 bookkeeping: compare as milli-units
                    self.subs[k].items[j].delivered.push(((*v * 1000.0).round() as i64, *st));
                }
            }
        }
    }

    /// C24: one notification's worth of values for one item against the bounded-queue model.
    fn check_queue(&mut self, k: usize, j: usize, list: &[(f64, u32)], ctx: &mut Ctx) {
        let it = &self.subs[k].items[j];
        let q = it.queue.max(1);
        let vals: Vec<i64> = list.iter().map(|x| x.0 as i64).collect();
        let n_before = it.delivered.len() - vals.len();
        let prev: i64 = if n_before == 0 { it.initial - 1 } else { it.delivered[n_before - 1].0 };
        let desc = format!("q={},discard_oldest={}", q, it.discard_oldest);
        if it.modified {
            // the queue was resized during this cycle: replay the samples of the cycle through a
            // step-by-step bounded queue that is resized where the Modify happened; a shrink keeps
            // the most recent entries that fit
            let mods = it.mods.clone();
            let last = *vals.last().unwrap();
            let mut expected: Vec<i64> = Vec::new();
            let (mut mq, mut mdis) = mods.first().map(|m| (m.1, m.2)).unwrap_or((q, it.discard_oldest));
            let apply = |expected: &mut Vec<i64>, mq: &mut usize, mdis: &mut bool, m: &(i64, usize, bool, usize, bool)| {
                *mq = m.3;
                *mdis = m.4;
                if expected.len() > *mq {
                    let cut = expected.len() - *mq;
                    expected.drain(0..cut);
                }
            };
            for m in mods.iter().filter(|m| m.0 <= prev) {
                apply(&mut expected, &mut mq, &mut mdis, m);
            }
            for v in prev + 1..=last {
                if expected.len() < mq {
                    expected.push(v);
                } else if mdis {
                    expected.remove(0);
                    expected.push(v);
                } else if let Some(l) = expected.last_mut() {
                    *l = v;
                }
                for m in mods.iter().filter(|m| m.0 == v) {
                    apply(&mut expected, &mut mq, &mut mdis, m);
                }
            }
            let sane = last > prev && mods.iter().all(|m| m.0 <= last);
            if sane && vals != expected {
                ctx.violate(
                    "C24",
                    "queue-content",
                    "after-resize",
                    format!("{} after resize(s) {:?} (last sampled value, old size, old discard-oldest, new size, new discard-oldest): delivered {:?}, a bounded queue that keeps the most recent entries on a shrink holds {:?} (previous report ended at {})", desc, mods, vals, expected, prev),
                );
            }
            let it = &mut self.subs[k].items[j];
            it.modified = false;
            it.mods.clear();
            return;
        }
        if vals.len() > q {
            ctx.violate("C24", "queue-bound", "", format!("{} values delivered in one notification for an item with queue size {}", vals.len(), q));
            return;
        }
        let last = *vals.last().unwrap();
        let n = last - prev; // samples taken since the previous report (one write of +1 per tick)
        if n <= 0 {
            return; // order clauses already flagged by C21
        }
        let overflowed = n as usize > q;
        if overflowed {
            ctx.fault("queue_overflow");
        }
        let has_overflow_bit = list.iter().any(|x| x.1 & 0x80 != 0);
        let expected: Vec<i64> = if !overflowed {
            (prev + 1..=last).collect()
        } else if it.discard_oldest {
            (last - q as i64 + 1..=last).collect()
        } else {
            let mut e: Vec<i64> = (prev + 1..prev + q as i64).collect();
            e.push(last);
            e
        };
        if vals != expected {
            ctx.violate(
                "C24",
                "queue-content",
                if it.discard_oldest { "discard_oldest" } else { "keep_oldest" },
                format!("{}: delivered {:?}, bounded-queue model expects {:?} (previous report ended at {})", desc, vals, expected, prev),
            );
        }
        if q > 1 && overflowed != has_overflow_bit {
            ctx.violate(
                "C24",
                "overflow-bit",
                if overflowed { "missing" } else { "spurious" },
                format!("{}: overflow happened={} but overflow info bit present={}", desc, overflowed, has_overflow_bit),
            );
        }
        let _ = OVERFLOW_BIT;
    }

    fn check_ack_results(&mut self, out: &Outstanding, resp: &PublishResponse, ctx: &mut Ctx) {
        if out.acks.is_empty() {
            return;
        }
        let results = resp.results.clone().unwrap_or_default();
        if results.len() != out.acks.len() {
            ctx.violate("C40", "ack-results-length", "", format!("{} acknowledgements sent, {} results returned", out.acks.len(), results.len()));
            return;
        }
        let total_unacked: usize = self.subs.iter().filter(|s| s.alive).map(|s| s.sent.len() - s.acked_good.len()).sum();
        let alive = self.subs.iter().filter(|s| s.alive).count();
        let mut seen_in_request: BTreeSet<(u32, u32)> = BTreeSet::new();
        for ((sub_id, seq), st) in out.acks.iter().zip(results.iter()) {
            let k = self.subs.iter().position(|s| s.id == *sub_id);
            if out.ack_mode == "twice" && !seen_in_request.insert((*sub_id, *seq)) {
                // second occurrence in one request: the first one removed the message
                ctx.probe("ack_duplicate_in_one_request");
                if st.is_good() {
                    ctx.violate("C40", "ack-duplicate-good", "same-request", format!("sequence number {} acknowledged twice in one publish request: both results are Good", seq));
                }
                continue;
            }
            match out.ack_mode.as_str() {
                "unknown" => {
                    ctx.probe("ack_unknown_sequence");
                    if *st != StatusCode::BadSequenceNumberUnknown && k.map(|k| self.subs[k].alive).unwrap_or(false) {
                        ctx.violate("C40", "ack-unknown", st.name(), format!("acknowledging unknown sequence number {} returned {}", seq, st.name()));
                    }
                }
                "dup" => {
                    ctx.probe("ack_duplicate");
                    if st.is_good() {
                        ctx.violate("C40", "ack-duplicate-good", "", format!("acknowledging sequence number {} a second time returned Good", seq));
                    }
                }
                "badsub" => {}
                _ => {
                    if let Some(k) = k {
                        if st.is_good() {
                            self.subs[k].acked_good.insert(*seq);
                            self.subs[k].unconfirmed.remove(seq);
                        } else if self.subs[k].alive && !self.subs[k].evictable.contains(seq) {
                            ctx.violate(
                                "C40",
                                "ack-rejected",
                                st.name(),
                                format!("acknowledging retained sequence number {} of subscription {} returned {}", seq, sub_id, st.name()),
                            );
                        }
                    }
                }
            }
        }
    }

    fn check_republish(&mut self, k: usize, seq: u32, which: &str, r: &Recv, ctx: &mut Ctx) {
        self.republish_checked += 1;
        let sub = &self.subs[k];
        match r {
            Recv::Msg(_, SupportedMessage::RepublishResponse(resp)) => {
                ctx.probe("republish_good");
                match sub.sent.get(&seq) {
                    Some(orig) => {
                        if *orig != resp.notification_message {
                            ctx.violate("C40", "republish-differs", "", format!("republished message {} of subscription {} differs from the original", seq, sub.id));
                        }
                    }
                    None => {
                        ctx.violate("C40", "republish-unknown", "", format!("Republish returned a message for sequence number {} which was never sent", seq));
                    }
                }
                if sub.acked_good.contains(&seq) {
                    ctx.violate("C40", "republish-after-ack", "", format!("message {} of subscription {} was republished after its acknowledgement was answered Good", seq, sub.id));
                }
            }
            Recv::Msg(_, SupportedMessage::ServiceFault(fault)) => {
                let st = fault.response_header.service_result;
                let total_unacked: usize = self.subs.iter().filter(|s| s.alive).map(|s| s.sent.len() - s.acked_good.len()).sum();
                let alive = self.subs.iter().filter(|s| s.alive).count();
                let acked_in_flight = self.outstanding.iter().any(|o| o.acks.iter().any(|a| a.0 == sub.id && a.1 == seq));
                // the subscription may have expired already without the client knowing yet (the status
                // change is only delivered with the next publish response)
                // ... so a vanished subscription is judged after the drain
                let may_have_expired = st == StatusCode::BadSubscriptionIdInvalid && sub.alive;
                if may_have_expired {
                    ctx.probe("republish_on_possibly_expired_subscription");
                    self.republish_suspects.push((k, seq));
                }
                if !may_have_expired && which != "unknown" && which != "acked" && sub.alive && sub.sent.contains_key(&seq) && !sub.acked_good.contains(&seq) && !acked_in_flight && !sub.evictable.contains(&seq) {
                    ctx.violate(
                        "C40",
                        "republish-unavailable",
                        st.name(),
                        format!("retained, unacknowledged message {} of subscription {} is not available for Republish ({})", seq, sub.id, st.name()),
                    );
                }
                if which == "acked" {
                    ctx.probe("republish_after_ack_refused");
                }
            }
            _ => {}
        }
    }

    fn check_keepalive_timing(&mut self, k: usize, now: u64, kind: &Kind, ctx: &mut Ctx) {
        if self.regime != "c22-always" {
            return;
        }
        let sub = &self.subs[k];
        let pi = sub.pi_ms as u64;
        if let Kind::Status(code) = kind {
            ctx.violate("C22", "expired-with-requests", "", format!("subscription {} closed with status {:08x} although publish requests were always available", sub.id, code));
            return;
        }
        match sub.last_msg_at_ms {
            None => {
                let d = now - sub.created_at_ms;
                if d > 2 * pi + 2 * TICK_MS {
                    ctx.violate("C22", "first-keepalive-late", "", format!("first message arrived {} ms after creation (publishing interval {} ms)", d, pi));
                }
            }
            Some(last) => {
                let gap = now - last;
                let bound = (sub.ka as u64 + 1) * pi + 2 * TICK_MS;
                if gap > bound {
                    ctx.violate(
                        "C22",
                        "keepalive-gap",
                        "",
                        format!("{} ms between consecutive messages of subscription {} (max keep-alive count {}, interval {} ms, bound {} ms)", gap, sub.id, sub.ka, pi, bound),
                    );
                }
            }
        }
    }

    /// C22: called at the end of a "requests always available" run: silence is also a violation.
    pub fn check_keepalive_silence(&mut self, ctx: &mut Ctx) {
        if self.regime != "c22-always" || self.dead {
            return;
        }
        let now = self.now_ms();
        for sub in self.subs.iter().filter(|s| s.alive) {
            let pi = sub.pi_ms as u64;
            let bound = (sub.ka as u64 + 1) * pi + 2 * TICK_MS;
            match sub.last_msg_at_ms {
                None => {
                    if now - sub.created_at_ms > 2 * pi + 2 * TICK_MS {
                        ctx.violate("C22", "first-keepalive-late", "none", format!("no message {} ms after creation (publishing interval {} ms)", now - sub.created_at_ms, pi));
                    }
                }
                Some(last) => {
                    if now - last > bound {
                        ctx.violate(
                            "C22",
                            "keepalive-gap",
                            "",
                            format!("no message for {} ms on subscription {} (max keep-alive count {}, interval {} ms, bound {} ms)", now - last, sub.id, sub.ka, pi, bound),
                        );
                    }
                }
            }
        }
    }

    /// C27: within one collection batch (= one server tick) data notifications must come in
    /// descending priority, starting with the highest-priority subscription that was ready.
    fn check_priority(&mut self, batch: &[(usize, Kind, i64)], ready: &[usize], ctx: &mut Ctx) {
        if self.regime != "c27" || self.clock_jumped {
            return;
        }
        // Responses built by one server event (one pass over the subscriptions) share a timestamp.
        // Publish-request receipt can serve a subscription that was starved earlier (state Late)
        // ahead of the timer pass, so order is judged per pass.
        let data: Vec<(usize, i64)> = batch.iter().filter(|b| b.1 == Kind::Data).map(|b| (b.0, b.2)).collect();
        if data.is_empty() {
            return;
        }
        let mut groups: Vec<Vec<usize>> = Vec::new();
        let mut last_ts = i64::MIN;
        for (k, ts) in data.iter() {
            if *ts != last_ts {
                groups.push(Vec::new());
                last_ts = *ts;
            }
            groups.last_mut().unwrap().push(*k);
        }
        let mut served_earlier: Vec<usize> = Vec::new();
        for (gi, g) in groups.iter().enumerate() {
            let ts = data.iter().find(|d| d.0 == g[0]).map(|d| d.1).unwrap_or(0);
            let phase_ms = ((ts - crate::hooks::EPOCH_US) / 1000).rem_euclid(TICK_MS as i64);
            let timer_pass = phase_ms < 3;
            let prios: Vec<u8> = g.iter().map(|k| self.subs[*k].prio).collect();
            let sorted = prios.windows(2).all(|w| w[0] >= w[1]);
            let candidates: Vec<usize> = ready.iter().filter(|k| !served_earlier.contains(k)).cloned().collect();
            let mut bad = !sorted;
            if timer_pass && candidates.len() >= 2 {
                ctx.probe("several_subscriptions_ready");
                if g.len() < candidates.len() {
                    ctx.fault("scarce_publish_requests");
                }
                let max_ready = candidates.iter().map(|k| self.subs[*k].prio).max().unwrap_or(0);
                if candidates.contains(&g[0]) && prios[0] != max_ready {
                    bad = true;
                }
            }
            if bad {
                ctx.violate(
                    "C27",
                    "priority-order",
                    "",
                    format!(
                        "one server pass ({}, group {}) sent notifications for priorities {:?} while subscriptions with priorities {:?} had undelivered data",
                        if timer_pass { "timer" } else { "publish receipt" },
                        gi,
                        prios,
                        candidates.iter().map(|k| self.subs[*k].prio).collect::<Vec<_>>()
                    ),
                );
            }
            served_earlier.extend(g.iter().cloned());
        }
    }

    /// Fault-free drain: keep publish requests available for long enough, then run the
    /// end-of-history clauses.
    pub async fn drain_and_finish(&mut self, ctx: &mut Ctx) {
        if !self.dead {
            let saved = self.auto_publish;
            if self.regime != "c22-never" {
                self.auto_publish = self.auto_publish.max(2 * self.subs.iter().filter(|s| s.alive).count().max(1));
                let max_pi = self.subs.iter().filter(|s| s.alive).map(|s| s.pi_ms as u64).max().unwrap_or(100);
                let n = 3 * (max_pi / TICK_MS).max(1) + 4;
                for _ in 0..n {
                    if self.dead {
                        break;
                    }
                    self.tick(ctx).await;
                }
            }
            self.auto_publish = saved;
        }
        self.drained = true;
        for (k, seq) in std::mem::take(&mut self.republish_suspects) {
            let sub = &self.subs[k];
            if sub.status_change_at_ms.is_none() && !self.dead {
                ctx.violate("C40", "republish-unavailable", "BadSubscriptionIdInvalid", format!("Republish of retained message {} answered BadSubscriptionIdInvalid for subscription {}, which never reported a status change (it was not closed or expired)", seq, sub.id));
            }
        }
        self.check_keepalive_silence(ctx);
        self.check_completeness(ctx);
        if self.regime == "c25" {
            self.check_filters(ctx);
        }
        let now = self.now_ms();
        ctx.advance(now * 1000);
        ctx.add("bytes_sent", self.c.bytes_sent);
        ctx.add("publish_requests", self.publish_ids.len() as u64);
        ctx.add("data_notifications", self.subs.iter().map(|s| s.data_msgs).sum());
        ctx.add("keepalives", self.subs.iter().map(|s| s.keepalives).sum());
    }

    /// C21 (iii): completeness for items that lived to the end of the drain, in the sound regime.
    fn check_completeness(&mut self, ctx: &mut Ctx) {
        if self.dead || self.tick_jitter || self.clock_jumped || !(self.regime == "c21" || self.regime == "c24" || self.regime == "c40" || self.regime == "c27-complete") {
            return;
        }
        for sub in self.subs.iter() {
            if !sub.alive || sub.ever_disabled {
                continue;
            }
            for it in sub.items.iter() {
                if !it.alive || !it.reporting || it.queue_shrunk || !it.filter.is_null() {
                    continue;
                }
                if self.regime == "c24" && it.queue < 64 {
                    continue; // overflow is legitimate there; C24's own clauses judge those
                }
                // sound regime: the item samples on every timer tick (its own interval is the tick, or it
                // follows a publishing interval equal to the tick); a value written during the first two
                // ticks of the item's life may be overwritten before the item's first sample
                let every_tick = it.sampling_ms == TICK_MS as f64 || (it.sampling_ms < 0.0 && sub.pi_ms == TICK_MS as f64);
                if !every_tick {
                    continue;
                }
                let var = &self.vars[it.var];
                let required: Vec<i64> = var.writes.iter().filter(|w| w.tick >= it.created_tick + 2 && (w.value as i64) > it.initial).map(|w| w.value as i64).collect();
                let got: Vec<i64> = it.delivered.iter().map(|d| d.0).collect();
                let missing: Vec<i64> = required.iter().filter(|v| !got.contains(v)).cloned().collect();
                ctx.probe("completeness_checked");
                if !missing.is_empty() {
                    ctx.violate(
                        "C21",
                        "value-not-delivered",
                        "",
                        format!(
                            "item {} on v{}: {} value change(s) sampled while reporting were never delivered after a fault-free drain (first missing {:?}; {} delivered, {} required)",
                            it.handle,
                            it.var,
                            missing.len(),
                            missing.first(),
                            got.len(),
                            required.len()
                        ),
                    );
                }
            }
        }
    }

    /// C25: delivered sequence against the last-reported model.
    fn check_filters(&mut self, ctx: &mut Ctx) {
        if self.dead || self.tick_jitter || self.clock_jumped {
            return;
        }
        for sub in self.subs.iter() {
            if !sub.alive {
                continue;
            }
            for it in sub.items.iter() {
                if !it.alive {
                    continue;
                }
                let trig = it.filter["trigger"].as_u64().unwrap_or(1);
                let dtype = it.filter["deadband_type"].as_u64().unwrap_or(0);
                let dead = it.filter["deadband"].as_f64().unwrap_or(0.0);
                let log = &self.c25_log[it.var];
                // samples: state of the variable at each tick after creation
                let mut last: Option<(i64, u32)> = None;
                let mut expected: Vec<(i64, u32)> = Vec::new();
                let mut lenient = false;
                for (tick, val, status, written) in log.iter() {
                    if *tick <= it.created_tick {
                        continue;
                    }
                    let cur = (*val, *status);
                    let forced = it.forced_ticks.contains(tick);
                    let report = forced
                        || match last {
                        None => true,
                        Some(l) => {
                            let status_diff = l.1 != cur.1;
                            let value_diff = match dtype {
                                0 => l.0 != cur.0,
                                1 => ((l.0 - cur.0).abs() as f64) / 1000.0 > dead,
                                _ => {
                                    lenient = true;
                                    l.0 != cur.0
                                }
                            };
                            match trig {
                                0 => status_diff,
                                1 => status_diff || value_diff,
                                _ => status_diff || value_diff || *written,
                            }
                        }
                    };
                    if report {
                        expected.push(cur);
                        last = Some(cur);
                    }
                }
                let got: Vec<(i64, u32)> = it.delivered.iter().map(|d| (d.0, d.1 & !0x480)).collect();
                let desc = format!("trigger={},deadband_type={}", trig, dtype);
                if dtype == 2 || lenient {
                    // percent deadband: the statement only demands that an accepted filter can report
                    let big_change = log.windows(2).any(|w| w[1].0 >= it.created_tick && (w[1].1 - w[0].1).abs() >= 1_000_000_000);
                    let reported_big = got.iter().any(|g| g.0.abs() >= 500_000_000);
                    if big_change && !reported_big && trig >= 1 {
                        ctx.violate("C25", "never-reports", &desc, format!("filter ({}, deadband {}) was accepted but a change of 1e6 units was never reported", desc, dead));
                    }
                    continue;
                }
                ctx.probe("filter_history_checked");
                if got != expected {
                    let extra = got.len() as i64 - expected.len() as i64;
                    ctx.violate(
                        "C25",
                        if extra > 0 { "reported-unselected-change" } else if extra < 0 { "missed-selected-change" } else { "wrong-values-reported" },
                        &desc,
                        format!("filter ({}, deadband {}): reported {:?} (value x1000, status), model expects {:?}", desc, dead, got.iter().take(12).collect::<Vec<_>>(), expected.iter().take(12).collect::<Vec<_>>()),
                    );
                }
            }
        }
    }
}
