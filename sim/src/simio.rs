//! Simulated byte streams: an `AsyncRead` that delivers plan-chosen segments with `Pending`
//! between them, and an `AsyncWrite` sink with short writes, `Pending` and errors. Plus a tiny
//! manual poller (no runtime needed: nothing here uses timers).

use std::future::Future;
use std::pin::Pin;
use std::task::{Context, Poll, RawWaker, RawWakerVTable, Waker};
use tokio::io::{AsyncRead, AsyncWrite, ReadBuf};

use crate::rng::Rng;

fn noop_raw() -> RawWaker {
    fn clone(_: *const ()) -> RawWaker {
        noop_raw()
    }
    fn noop(_: *const ()) {}
    static VT: RawWakerVTable = RawWakerVTable::new(clone, noop, noop, noop);
    RawWaker::new(std::ptr::null(), &VT)
}

pub fn noop_waker() -> Waker {
    unsafe { Waker::from_raw(noop_raw()) }
}

/// Poll a future once.
pub fn poll_once<F: Future + ?Sized>(f: Pin<&mut F>) -> Poll<F::Output> {
    let w = noop_waker();
    let mut cx = Context::from_waker(&w);
    f.poll(&mut cx)
}

pub struct SegReader {
    pub data: Vec<u8>,
    pub pos: usize,
    /// Segment lengths; when exhausted the rest is delivered in one piece.
    pub segs: Vec<usize>,
    pub seg_idx: usize,
    pub seg_left: usize,
    /// Return Pending once before each new segment.
    pub pending_between: bool,
    armed_pending: bool,
    pub reads: u64,
    pub pendings: u64,
}

impl SegReader {
    pub fn new(data: Vec<u8>, segs: Vec<usize>, pending_between: bool) -> SegReader {
        SegReader {
            data,
            pos: 0,
            segs,
            seg_idx: 0,
            seg_left: 0,
            pending_between,
            armed_pending: pending_between,
            reads: 0,
            pendings: 0,
        }
    }
}

impl AsyncRead for SegReader {
    fn poll_read(mut self: Pin<&mut Self>, _cx: &mut Context<'_>, buf: &mut ReadBuf<'_>) -> Poll<std::io::Result<()>> {
        let me = &mut *self;
        if me.pos >= me.data.len() {
            return Poll::Ready(Ok(())); // EOF
        }
        if me.seg_left == 0 {
            if me.pending_between && me.armed_pending {
                me.armed_pending = false;
                me.pendings += 1;
                return Poll::Pending;
            }
            me.armed_pending = true;
            me.seg_left = if me.seg_idx < me.segs.len() {
                let s = me.segs[me.seg_idx].max(1);
                me.seg_idx += 1;
                s
            } else {
                me.data.len() - me.pos
            };
        }
        let n = me.seg_left.min(me.data.len() - me.pos).min(buf.remaining());
        buf.put_slice(&me.data[me.pos..me.pos + n]);
        me.pos += n;
        me.seg_left -= n;
        me.reads += 1;
        Poll::Ready(Ok(()))
    }
}

pub struct SinkWriter {
    pub out: Vec<u8>,
    pub rng: Rng,
    pub max_accept: usize,
    pub pending_rate: f64,
    pub writes: u64,
    pub short_writes: u64,
    pub pendings: u64,
    last_was_pending: bool,
}

impl SinkWriter {
    pub fn new(rng: Rng, max_accept: usize, pending_rate: f64) -> SinkWriter {
        SinkWriter {
            out: Vec::new(),
            rng,
            max_accept: max_accept.max(1),
            pending_rate,
            writes: 0,
            short_writes: 0,
            pendings: 0,
            last_was_pending: false,
        }
    }
}

impl AsyncWrite for SinkWriter {
    fn poll_write(mut self: Pin<&mut Self>, _cx: &mut Context<'_>, buf: &[u8]) -> Poll<std::io::Result<usize>> {
        let me = &mut *self;
        if !me.last_was_pending && me.rng.chance(me.pending_rate) {
            me.last_was_pending = true;
            me.pendings += 1;
            return Poll::Pending;
        }
        me.last_was_pending = false;
        if buf.is_empty() {
            return Poll::Ready(Ok(0));
        }
        let n = (1 + me.rng.below(me.max_accept as u64) as usize).min(buf.len());
        if n < buf.len() {
            me.short_writes += 1;
        }
        me.out.extend_from_slice(&buf[..n]);
        me.writes += 1;
        Poll::Ready(Ok(n))
    }
    fn poll_flush(self: Pin<&mut Self>, _cx: &mut Context<'_>) -> Poll<std::io::Result<()>> {
        Poll::Ready(Ok(()))
    }
    fn poll_shutdown(self: Pin<&mut Self>, _cx: &mut Context<'_>) -> Poll<std::io::Result<()>> {
        Poll::Ready(Ok(()))
    }
}
