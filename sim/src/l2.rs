//! Layer L2: the real server transport tasks (reader loop, writer loop, subscription timer) on
//! a paused, seeded, single-threaded tokio runtime, talking over an in-memory duplex stream to
//! a scripted raw client that frames, chunks and secures with the real `core::comms` code but
//! sends whatever the plan says.

use bytes::BytesMut;
use opcua::core::comms::chunker::Chunker;
use opcua::core::comms::message_chunk::{MessageChunk, MessageChunkType, MessageIsFinalType};
use opcua::core::comms::secure_channel::{Role, SecureChannel};
use opcua::core::comms::tcp_codec::{Message, TcpCodec};
use opcua::core::comms::tcp_types::*;
use opcua::core::supported_message::SupportedMessage;
use opcua::crypto::SecurityPolicy;
use opcua::server::comms::tcp_transport::TcpTransport;
use opcua::server::config::{ServerEndpoint, ServerUserToken};
use opcua::server::prelude::{Server, ServerBuilder};
use opcua::core::config::Config;
use opcua::sync::RwLock;
use opcua::types::*;
use std::collections::VecDeque;
use std::sync::Arc;
use std::time::Duration;
use tokio::io::{AsyncReadExt, AsyncWriteExt, DuplexStream};
use tokio_util::codec::Decoder;

use crate::wire;

pub const ENDPOINT_URL: &str = "opc.tcp://127.0.0.1:4855/";

pub fn runtime(seed: u64) -> tokio::runtime::Runtime {
    tokio::runtime::Builder::new_current_thread()
        .enable_all()
        .start_paused(true)
        .rng_seed(tokio::runtime::RngSeed::from_bytes(&seed.to_le_bytes()))
        .build()
        .expect("runtime")
}

/// Per-process scratch directory below the scratch root of the top-level process (which removes
/// the whole root when it exits, see `main`).
pub fn scratch_dir() -> std::path::PathBuf {
    let root = std::env::var("VERIF_SCRATCH").map(std::path::PathBuf::from).unwrap_or_else(|_| std::env::temp_dir().join(format!("opcua-verif-run-{}", std::process::id())));
    let d = root.join(format!("p{}", std::process::id()));
    let _ = std::fs::create_dir_all(&d);
    d
}

pub fn cleanup_scratch() {
    let _ = std::fs::remove_dir_all(scratch_dir());
}

/// A PKI directory holding the server's own certificate (identity b) for `bits`.
pub fn server_pki(bits: u32) -> std::path::PathBuf {
    let d = scratch_dir().join(format!("pki-{}", bits));
    if !d.join("own/cert.der").exists() {
        let id = wire::identity(bits, "b");
        let _ = std::fs::create_dir_all(d.join("own"));
        let _ = std::fs::create_dir_all(d.join("private"));
        let _ = std::fs::create_dir_all(d.join("trusted"));
        let _ = std::fs::create_dir_all(d.join("rejected"));
        std::fs::write(d.join("own/cert.der"), id.cert.to_der().expect("der")).expect("write cert");
        std::fs::write(d.join("private/private.pem"), &id.pem).expect("write key");
    }
    d
}

#[derive(Clone, Debug)]
pub struct ServerSpec {
    pub endpoints: Vec<(SecurityPolicy, MessageSecurityMode)>,
    pub anonymous: bool,
    /// (token id, user, password)
    pub users: Vec<(String, String, Option<String>)>,
    pub modify_address_space: bool,
    pub key_bits: u32,
    pub max_monitored_item_queue_size: usize,
    pub max_message_size: usize,
    pub max_chunk_count: usize,
    pub send_buffer_size: usize,
    pub receive_buffer_size: usize,
    pub max_array_length: usize,
    pub max_string_length: usize,
    pub hello_timeout: u32,
    /// per endpoint: user token ids (None = all) and password security policy
    pub endpoint_tokens: Option<Vec<Vec<String>>>,
    pub endpoint_password_policy: Option<Vec<Option<String>>>,
    /// X.509 users: (token id, user name, fixture identity whose certificate identifies the user)
    pub x509_users: Vec<(String, String, String)>,
}

impl Default for ServerSpec {
    fn default() -> Self {
        ServerSpec {
            endpoints: vec![(SecurityPolicy::None, MessageSecurityMode::None)],
            anonymous: true,
            users: Vec::new(),
            modify_address_space: true,
            key_bits: 2048,
            max_monitored_item_queue_size: 0,
            max_message_size: 0,
            max_chunk_count: 0,
            send_buffer_size: 0,
            receive_buffer_size: 0,
            max_array_length: 0,
            max_string_length: 0,
            hello_timeout: 5,
            endpoint_tokens: None,
            endpoint_password_policy: None,
            x509_users: Vec::new(),
        }
    }
}

pub fn build_server(spec: &ServerSpec) -> Server {
    let mut token_ids: Vec<String> = Vec::new();
    if spec.anonymous {
        token_ids.push(opcua::server::config::ANONYMOUS_USER_TOKEN_ID.to_string());
    }
    for (id, _, _) in spec.users.iter() {
        token_ids.push(id.clone());
    }
    for (id, _, _) in spec.x509_users.iter() {
        token_ids.push(id.clone());
    }
    let mut b = ServerBuilder::new()
        .application_name("sim")
        .application_uri("urn:sim:b")
        .product_uri("urn:sim:product")
        .create_sample_keypair(false)
        .certificate_path("own/cert.der")
        .private_key_path("private/private.pem")
        .pki_dir(server_pki(spec.key_bits))
        .host_and_port("127.0.0.1", 4855)
        .discovery_urls(vec!["/".into()])
        .trust_client_certs();
    for (i, (p, m)) in spec.endpoints.iter().enumerate() {
        let ids = match &spec.endpoint_tokens {
            Some(v) if i < v.len() => v[i].clone(),
            _ => token_ids.clone(),
        };
        let mut ep = ServerEndpoint::new("/", *p, *m, &ids);
        if let Some(pp) = &spec.endpoint_password_policy {
            if i < pp.len() {
                ep.password_security_policy = pp[i].clone();
            }
        }
        b = b.endpoint(format!("ep{}", i), ep);
    }
    for (id, user, pass) in spec.users.iter() {
        b = b.user_token(
            id.clone(),
            ServerUserToken {
                user: user.clone(),
                pass: pass.clone(),
                x509: None,
                thumbprint: None,
            },
        );
    }
    for (id, user, ident) in spec.x509_users.iter() {
        // the user's certificate is read from disk when the server is created
        let dir = server_pki(spec.key_bits).join("users");
        let _ = std::fs::create_dir_all(&dir);
        let path = dir.join(format!("{}.der", ident));
        if !path.exists() {
            let _ = std::fs::write(&path, wire::identity(2048, ident).cert.to_der().expect("der"));
        }
        b = b.user_token(
            id.clone(),
            ServerUserToken {
                user: user.clone(),
                pass: None,
                x509: Some(path.to_string_lossy().to_string()),
                thumbprint: None,
            },
        );
    }
    if spec.modify_address_space {
        b = b.clients_can_modify_address_space();
    }
    let mut config = b.config();
    if spec.max_monitored_item_queue_size > 0 {
        config.limits.max_monitored_item_queue_size = spec.max_monitored_item_queue_size;
    }
    if spec.max_message_size > 0 {
        config.limits.max_message_size = spec.max_message_size;
    }
    if spec.max_chunk_count > 0 {
        config.limits.max_chunk_count = spec.max_chunk_count;
    }
    if spec.send_buffer_size > 0 {
        config.limits.send_buffer_size = spec.send_buffer_size;
    }
    if spec.receive_buffer_size > 0 {
        config.limits.receive_buffer_size = spec.receive_buffer_size;
    }
    if spec.max_array_length > 0 {
        config.limits.max_array_length = spec.max_array_length;
    }
    if spec.max_string_length > 0 {
        config.limits.max_string_length = spec.max_string_length;
    }
    config.tcp_config.hello_timeout = spec.hello_timeout;
    config.certificate_validation.check_time = true;
    if !config.is_valid() {
        panic!("harness error: generated server configuration is invalid");
    }
    Server::new(config)
}

#[derive(Debug, Clone, PartialEq)]
pub enum Recv {
    /// (request id, message)
    Msg(u32, SupportedMessage),
    Ack(AcknowledgeMessage),
    Err(u32),
    /// the server closed the connection
    Eof,
    /// nothing arrived within the allowed virtual time
    Timeout,
    /// the raw client could not verify / decode what the server sent
    Bad(StatusCode),
}

/// One simulated TCP connection to the real server transport, plus raw-client state.
pub struct Conn {
    pub io: Option<DuplexStream>,
    pub transport: Arc<RwLock<TcpTransport>>,
    pub chan: SecureChannel,
    pub codec: TcpCodec,
    pub inbuf: BytesMut,
    pub next_seq: u32,
    pub next_req: u32,
    pub next_handle: u32,
    pub chunk_size: usize,
    pub pending: Vec<MessageChunk>,
    pub backlog: VecDeque<Recv>,
    pub auth_token: NodeId,
    pub session_id: NodeId,
    pub server_nonce: ByteString,
    pub bytes_sent: u64,
    pub bytes_received: u64,
    /// every (request id, message) the server delivered on this connection, in order
    pub eof: bool,
    /// secure channel id named by the header of the last chunk the server sent
    pub last_chunk_channel_id: u32,
}

impl Conn {
    /// Create a transport on `server` exactly like `Server::handle_connection` does and start its
    /// tasks on the current runtime, connected to an in-memory duplex stream.
    pub fn connect(server: &Server, looping_interval_ms: f64, pipe_capacity: usize, peer_port: u16) -> Conn {
        let transport = Arc::new(RwLock::new(server.new_transport()));
        {
            let connections = server.connections();
            connections.write().push(transport.clone());
        }
        let (client_end, server_end) = tokio::io::duplex(pipe_capacity);
        let peer = std::net::SocketAddr::from(([127, 0, 0, 1], peer_port));
        let stream = opcua::verif::net::TcpStream::from_stream(server_end, peer);
        TcpTransport::run(transport.clone(), stream, looping_interval_ms);
        Conn {
            io: Some(client_end),
            transport,
            chan: wire::bare_channel(Role::Client, DecodingOptions::default()),
            codec: TcpCodec::new(DecodingOptions::default()),
            inbuf: BytesMut::new(),
            next_seq: 1,
            next_req: 1,
            next_handle: 1,
            chunk_size: 65536,
            pending: Vec::new(),
            backlog: VecDeque::new(),
            auth_token: NodeId::null(),
            session_id: NodeId::null(),
            server_nonce: ByteString::null(),
            bytes_sent: 0,
            bytes_received: 0,
            eof: false,
            last_chunk_channel_id: 0,
        }
    }

    pub fn is_open(&self) -> bool {
        self.io.is_some() && !self.eof
    }

    /// Abruptly drop the client end (connection reset / EOF for the server).
    pub fn reset(&mut self) {
        self.io = None;
        self.eof = true;
    }

    pub async fn send_bytes(&mut self, bytes: &[u8]) -> bool {
        if let Some(io) = self.io.as_mut() {
            match tokio::time::timeout(Duration::from_secs(3600), io.write_all(bytes)).await {
                Ok(Ok(())) => {
                    self.bytes_sent += bytes.len() as u64;
                    true
                }
                _ => {
                    self.eof = true;
                    false
                }
            }
        } else {
            false
        }
    }

    /// Send bytes in pieces of the given sizes with a virtual pause between them.
    pub async fn send_segmented(&mut self, bytes: &[u8], segs: &[usize], pause_us: u64) -> bool {
        let mut pos = 0;
        for s in segs {
            if pos >= bytes.len() {
                break;
            }
            let end = (pos + (*s).max(1)).min(bytes.len());
            if !self.send_bytes(&bytes[pos..end]).await {
                return false;
            }
            pos = end;
            if pause_us > 0 {
                tokio::time::sleep(Duration::from_micros(pause_us)).await;
            } else {
                tokio::task::yield_now().await;
            }
        }
        if pos < bytes.len() {
            return self.send_bytes(&bytes[pos..]).await;
        }
        true
    }

    pub fn hello_bytes(url: &str, send_buf: usize, recv_buf: usize, max_msg: usize, max_chunks: usize) -> Vec<u8> {
        let h = HelloMessage::new(url, send_buf, recv_buf, max_msg, max_chunks);
        h.encode_to_vec()
    }

    pub async fn hello(&mut self) -> Recv {
        let b = Self::hello_bytes(ENDPOINT_URL, 65536, 65536, 0, 0);
        self.send_bytes(&b).await;
        self.recv(Duration::from_secs(2)).await
    }

    pub fn header(&mut self) -> RequestHeader {
        let h = self.next_handle;
        self.next_handle += 1;
        RequestHeader {
            authentication_token: self.auth_token.clone(),
            timestamp: DateTime::from(crate::hooks::utc_now()),
            request_handle: h,
            return_diagnostics: DiagnosticBits::empty(),
            audit_entry_id: UAString::null(),
            timeout_hint: 0,
            additional_header: ExtensionObject::null(),
        }
    }

    /// Chunk and secure a message with the real code; returns (request id, wire bytes per chunk).
    pub fn encode_message(&mut self, msg: &SupportedMessage) -> Result<(u32, Vec<Vec<u8>>), StatusCode> {
        let req = self.next_req;
        self.next_req += 1;
        let chunks = Chunker::encode(self.next_seq, req, 0, self.chunk_size, &self.chan, msg)?;
        self.next_seq += chunks.len() as u32;
        let mut out = Vec::new();
        for c in chunks.iter() {
            let mut dst = vec![0u8; c.data.len() + 8192];
            let n = self.chan.apply_security(c, &mut dst)?;
            dst.truncate(n);
            out.push(dst);
        }
        Ok((req, out))
    }

    pub async fn send_message(&mut self, msg: &SupportedMessage) -> Option<u32> {
        match self.encode_message(msg) {
            Ok((req, chunks)) => {
                for c in chunks {
                    if !self.send_bytes(&c).await {
                        return None;
                    }
                }
                Some(req)
            }
            Err(_) => None,
        }
    }

    /// Configure the client channel for an OPN with the given policy/mode (before `open`).
    pub fn prepare_channel(&mut self, policy: SecurityPolicy, mode: MessageSecurityMode, bits: u32) {
        self.chan.set_security_policy(policy);
        self.chan.set_security_mode(mode);
        if policy != SecurityPolicy::None {
            let a = wire::identity(bits, "a");
            let b = wire::identity(bits, "b");
            self.chan.set_cert(Some(a.cert.clone()));
            self.chan.set_private_key(Some(a.key()));
            self.chan.set_remote_cert(Some(b.cert.clone()));
        }
    }

    pub fn opn_request(&mut self, renew: bool, lifetime_ms: u32) -> SupportedMessage {
        let nonce = self.chan.security_policy().random_nonce();
        self.chan.set_local_nonce(nonce.as_ref());
        OpenSecureChannelRequest {
            request_header: self.header(),
            client_protocol_version: 0,
            request_type: if renew { SecurityTokenRequestType::Renew } else { SecurityTokenRequestType::Issue },
            security_mode: self.chan.security_mode(),
            client_nonce: nonce,
            requested_lifetime: lifetime_ms,
        }
        .into()
    }

    pub fn apply_opn_response(&mut self, r: &OpenSecureChannelResponse) -> Result<(), StatusCode> {
        self.chan.set_security_token(r.security_token.clone());
        if self.chan.security_policy() != SecurityPolicy::None && self.chan.security_mode() != MessageSecurityMode::None {
            self.chan.set_remote_nonce_from_byte_string(&r.server_nonce)?;
            self.chan.derive_keys();
        }
        Ok(())
    }

    /// Issue or renew the secure channel; returns the response as received.
    pub async fn open(&mut self, renew: bool, lifetime_ms: u32) -> Recv {
        let req = self.opn_request(renew, lifetime_ms);
        let id = match self.send_message(&req).await {
            Some(id) => id,
            None => return Recv::Eof,
        };
        let r = self.recv_for(id, Duration::from_secs(2)).await;
        if let Recv::Msg(_, SupportedMessage::OpenSecureChannelResponse(ref resp)) = r {
            if let Err(e) = self.apply_opn_response(resp) {
                return Recv::Bad(e);
            }
        }
        r
    }

    /// Receive the next frame-level event, waiting at most `limit` of virtual time.
    pub async fn recv(&mut self, limit: Duration) -> Recv {
        if let Some(r) = self.backlog.pop_front() {
            return r;
        }
        self.recv_wire(limit).await
    }

    async fn recv_wire(&mut self, limit: Duration) -> Recv {
        let deadline = tokio::time::Instant::now() + limit;
        loop {
            // try to decode what we have
            match self.codec.decode(&mut self.inbuf) {
                Ok(Some(Message::Acknowledge(a))) => return Recv::Ack(a),
                Ok(Some(Message::Error(e))) => return Recv::Err(e.error),
                Ok(Some(Message::Hello(_))) => return Recv::Bad(StatusCode::BadUnexpectedError),
                Ok(Some(Message::Chunk(c))) => {
                    let chunk = match self.chan.verify_and_remove_security(&c.data) {
                        Ok(c) => c,
                        Err(e) => return Recv::Bad(e),
                    };
                    let hdr = match chunk.message_header(&DecodingOptions::default()) {
                        Ok(h) => h,
                        Err(e) => return Recv::Bad(e),
                    };
                    self.last_chunk_channel_id = hdr.secure_channel_id;
                    match hdr.is_final {
                        MessageIsFinalType::Intermediate => {
                            self.pending.push(chunk);
                            continue;
                        }
                        MessageIsFinalType::FinalError => {
                            self.pending.clear();
                            return Recv::Bad(StatusCode::BadCommunicationError);
                        }
                        MessageIsFinalType::Final => {
                            self.pending.push(chunk);
                            let chunks: Vec<MessageChunk> = self.pending.drain(..).collect();
                            let info = match chunks[0].chunk_info(&self.chan) {
                                Ok(i) => i,
                                Err(e) => return Recv::Bad(e),
                            };
                            return match Chunker::decode(&chunks, &self.chan, None) {
                                Ok(m) => Recv::Msg(info.sequence_header.request_id, m),
                                Err(e) => Recv::Bad(e),
                            };
                        }
                    }
                }
                Ok(None) => {}
                Err(_) => return Recv::Bad(StatusCode::BadDecodingError),
            }
            if self.eof || self.io.is_none() {
                return Recv::Eof;
            }
            let io = self.io.as_mut().unwrap();
            let mut tmp = [0u8; 16384];
            let now = tokio::time::Instant::now();
            // with a zero budget this still polls the stream once, so already delivered bytes are read
            let left = if deadline > now { deadline - now } else { Duration::from_micros(0) };
            match tokio::time::timeout(left, io.read(&mut tmp)).await {
                Err(_) => return Recv::Timeout,
                Ok(Ok(0)) | Ok(Err(_)) => {
                    self.eof = true;
                    return Recv::Eof;
                }
                Ok(Ok(n)) => {
                    self.bytes_received += n as u64;
                    self.inbuf.extend_from_slice(&tmp[..n]);
                }
            }
        }
    }

    /// Wait for the response with request id `id`; other messages (publish responses) are kept in
    /// the backlog in arrival order.
    pub async fn recv_for(&mut self, id: u32, limit: Duration) -> Recv {
        // check the backlog first
        if let Some(pos) = self.backlog.iter().position(|r| matches!(r, Recv::Msg(i, _) if *i == id)) {
            return self.backlog.remove(pos).unwrap();
        }
        let deadline = tokio::time::Instant::now() + limit;
        loop {
            let now = tokio::time::Instant::now();
            let left = if deadline > now { deadline - now } else { Duration::from_micros(0) };
            let r = self.recv_wire(left).await;
            match r {
                Recv::Msg(i, _) if i == id => return r,
                Recv::Msg(_, _) => self.backlog.push_back(r),
                other => return other,
            }
        }
    }

    /// Send a request and wait for its response.
    pub async fn call(&mut self, msg: SupportedMessage) -> Recv {
        match self.send_message(&msg).await {
            Some(id) => self.recv_for(id, Duration::from_secs(5)).await,
            None => Recv::Eof,
        }
    }

    /// Drain everything the server has sent so far without letting virtual time pass beyond `limit`.
    pub async fn drain(&mut self, limit: Duration) -> Vec<Recv> {
        let mut out = Vec::new();
        loop {
            let r = self.recv(limit).await;
            match r {
                Recv::Timeout => break,
                Recv::Eof => {
                    out.push(r);
                    break;
                }
                Recv::Bad(_) => {
                    out.push(r);
                    break;
                }
                _ => out.push(r),
            }
            if out.len() > 10_000 {
                break;
            }
        }
        out
    }

    pub async fn create_session(&mut self, timeout_ms: f64) -> Recv {
        let client_cert = self.chan.cert().map(|c| c.as_byte_string()).unwrap_or_else(ByteString::null);
        let req: SupportedMessage = CreateSessionRequest {
            request_header: self.header(),
            client_description: ApplicationDescription {
                application_uri: UAString::from("urn:sim:a"),
                product_uri: UAString::from("urn:sim:client"),
                application_name: LocalizedText::from("sim client"),
                application_type: ApplicationType::Client,
                gateway_server_uri: UAString::null(),
                discovery_profile_uri: UAString::null(),
                discovery_urls: None,
            },
            server_uri: UAString::null(),
            endpoint_url: UAString::from(ENDPOINT_URL),
            session_name: UAString::from("sim session"),
            client_nonce: ByteString::from(vec![7u8; 32]),
            client_certificate: client_cert,
            requested_session_timeout: timeout_ms,
            max_response_message_size: 0,
        }
        .into();
        let r = self.call(req).await;
        if let Recv::Msg(_, SupportedMessage::CreateSessionResponse(ref resp)) = r {
            self.auth_token = resp.authentication_token.clone();
            self.session_id = resp.session_id.clone();
            self.server_nonce = resp.server_nonce.clone();
        }
        r
    }

    pub fn anonymous_token() -> ExtensionObject {
        ExtensionObject::from_encodable(
            ObjectId::AnonymousIdentityToken_Encoding_DefaultBinary,
            &AnonymousIdentityToken {
                policy_id: UAString::from("anonymous"),
            },
        )
    }

    pub fn client_signature(&self) -> SignatureData {
        let policy = self.chan.security_policy();
        if policy == SecurityPolicy::None {
            return SignatureData::null();
        }
        let bits = self.chan.cert().and_then(|c| c.key_length().ok()).unwrap_or(2048) as u32;
        let a = wire::identity(bits, "a");
        let b = wire::identity(bits, "b");
        opcua::crypto::create_signature_data(&a.key(), policy, &b.cert.as_byte_string(), &self.server_nonce).unwrap_or_else(|_| SignatureData::null())
    }

    pub async fn activate_session(&mut self, token: ExtensionObject) -> Recv {
        let sig = self.client_signature();
        self.activate_session_signed(token, sig).await
    }

    /// ActivateSession with a given client signature (a replayed request reuses the old one).
    pub async fn activate_session_signed(&mut self, token: ExtensionObject, client_signature: SignatureData) -> Recv {
        self.activate_session_full(token, client_signature, SignatureData::null()).await
    }

    /// ActivateSession with given client and user token signatures.
    pub async fn activate_session_full(&mut self, token: ExtensionObject, client_signature: SignatureData, user_token_signature: SignatureData) -> Recv {
        let req: SupportedMessage = ActivateSessionRequest {
            request_header: self.header(),
            client_signature,
            client_software_certificates: None,
            locale_ids: None,
            user_identity_token: token,
            user_token_signature,
        }
        .into();
        let r = self.call(req).await;
        if let Recv::Msg(_, SupportedMessage::ActivateSessionResponse(ref resp)) = r {
            self.server_nonce = resp.server_nonce.clone();
        }
        r
    }

    /// HEL + OPN(issue) + CreateSession + ActivateSession(anonymous). Returns false on any failure.
    pub async fn handshake(&mut self, policy: SecurityPolicy, mode: MessageSecurityMode, bits: u32) -> bool {
        if !matches!(self.hello().await, Recv::Ack(_)) {
            return false;
        }
        self.prepare_channel(policy, mode, bits);
        if !matches!(self.open(false, 3_600_000).await, Recv::Msg(_, SupportedMessage::OpenSecureChannelResponse(_))) {
            return false;
        }
        if !matches!(self.create_session(60_000.0).await, Recv::Msg(_, SupportedMessage::CreateSessionResponse(_))) {
            return false;
        }
        matches!(self.activate_session(Self::anonymous_token()).await, Recv::Msg(_, SupportedMessage::ActivateSessionResponse(_)))
    }
}

/// Short stable name for a message kind (for journals and shapes).
pub fn msg_kind(m: &SupportedMessage) -> String {
    let s = format!("{:?}", m);
    let end = s.find(|c: char| c == '(' || c == ' ' || c == '{').unwrap_or(s.len());
    s[..end].to_string()
}

pub fn response_status(m: &SupportedMessage) -> StatusCode {
    match m {
        SupportedMessage::ServiceFault(f) => f.response_header.service_result,
        _ => StatusCode::Good,
    }
}

pub fn recv_kind(r: &Recv) -> String {
    match r {
        Recv::Msg(_, m) => {
            let st = response_status(m);
            if st.is_good() {
                msg_kind(m)
            } else {
                format!("Fault:{}", st.name())
            }
        }
        Recv::Ack(_) => "ACK".into(),
        Recv::Err(e) => format!("ERR:{}", StatusCode::from_u32(*e).map(|s| s.name().to_string()).unwrap_or_else(|| format!("{:08x}", e))),
        Recv::Eof => "EOF".into(),
        Recv::Timeout => "TIMEOUT".into(),
        Recv::Bad(s) => format!("BAD:{}", s.name()),
    }
}
